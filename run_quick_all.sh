#!/bin/sh
# run every quick check in sequence and print a one-line summary each (development aid)
cd "$(dirname "$0")"
for p in ${PROPS:-C01 C02 C03 C04 C05 C06 C07 C08 C09 C10 C11 C12 C13 C14 C15 C16 C17 C18 C19 C20}; do
  s=$(date +%s)
  ./check $p --tier ${TIER:-quick} > .work/quick_$p.out 2>&1
  rc=$?
  e=$(date +%s)
  echo "$p rc=$rc $((e-s))s $(grep -c '^VIOLATION' .work/quick_$p.out) violations $(grep -c '^KNOWN-FINDING' .work/quick_$p.out) known $(grep -c '^INCONCLUSIVE' .work/quick_$p.out) inconclusive"
done
