#!/bin/sh
# tools_confirm_mutant.sh <id> : confirm a sub-agent's seeded change in its own scratch worktree:
#   patch applies to a clean tree, crate builds, unedited test-suite passes, demo fails with / passes without the change.
id=$1
wt=/tmp/mut/$id
out=/tmp/mut/${id}_out
cd $wt || exit 3
git checkout -q -- . && git clean -fdq tests/demo.rs 2>/dev/null
git apply --check $out/patch.diff || { echo "PATCH-DOES-NOT-APPLY"; exit 1; }
git apply $out/patch.diff
echo "== suite with change"; cargo test --offline 2>&1 | grep -E "^test result|FAILED|panicked" | head -8
cp $out/demo.rs tests/demo.rs
echo "== demo with change (must fail)"; cargo test --offline --test demo 2>&1 | grep -E "^test result|FAILED|panicked|error" | head -6
git checkout -q -- src
echo "== demo without change (must pass)"; cargo test --offline --test demo 2>&1 | grep -E "^test result|FAILED|panicked|error" | head -6
rm -f tests/demo.rs
git status --short | head -5
