#!/bin/sh
# tools_confirm_mutant.sh <worktree> <outdir> [cargo-features] : confirm a sub-agent's seeded change in its own scratch worktree:
#   patch applies to a clean tree, crate builds, unedited test-suite passes, demo fails with / passes without the change.
wt=$1; out=$2; feat=$3
cd $wt || exit 3
git checkout -q -- . ; rm -f tests/demo.rs
git apply --check $out/patch.diff || { echo "PATCH-DOES-NOT-APPLY"; exit 1; }
git apply $out/patch.diff
echo "suite with change: $(cargo test --offline $feat 2>&1 | grep -E '^test result' | tr '\n' ' ' | cut -c1-260)"
cp $out/demo.rs tests/demo.rs
echo "demo with change (must fail): $(cargo test --offline $feat --test demo 2>&1 | grep -E '^test result')"
git checkout -q -- src
echo "demo without change (must pass): $(cargo test --offline $feat --test demo 2>&1 | grep -E '^test result')"
rm -f tests/demo.rs
