#!/opt/veriftools/pyvenv/bin/python
"""Regenerate MANIFEST.json from vlib/plan.py (checks, engines, levels)."""
import json, os, sys
sys.path.insert(0, os.path.dirname(os.path.abspath(__file__)))
from vlib import plan

props = {json.loads(l)["id"]: json.loads(l) for l in open("properties.jsonl")}
TEXT = {
 "C01": ("Engine M (mirsym): the MIR of Mean/Variance is executed symbolically in exact arithmetic; z3 proves the add-step identity for every count n and every real x, every accessor identity on every exact summary, and the definitional statistics for streams of 1..5 (7) symbolic observations. This decides that the formulas are the exact statistics (rounding aside) for all inputs and all n. Rounding-error mode: z3 proves, per sign case, that the rigorous floating-point error bound propagated through the MIR stays inside the envelope C*n*kappa*2^-53*scale for ALL finite data with kappa <= 1e12 on short streams (mean n <= 4, variances n <= 3); Kani lattice harnesses at n = 3 for offsets up to 1e15.",
         "Bounds: counts < 2^53; f64 interpreted over the reals. Outside: accumulated rounding error (DESIGN.md section 3)."),
 "C02": ("Engine M: merge-step identity for all counts na, nb >= 0 and all real summaries (Mean..Kurtosis, Moments4, define_moments! orders 5, 6); plus 4 (5) symbolic values under every composition into <= 3 (4) contiguous chunks and every binary merge tree. With the add-steps this is every chunking and every merge tree of any length by induction (DESIGN.md section 2.3). Rounding-error mode: z3 proves, per sign case, that the rigorous floating-point error bound propagated through the MIR stays inside the envelope C*n*kappa*2^-53*scale for ALL finite data with kappa <= 1e12 on short streams (mean and variance of chunks (1,1), (2,1), (1,2), (1,1,1) merged).",
         "Trusted: the binomial-theorem oracle (cross-checked by the definitional queries), mirsym's interpreter and models. Outside: rounding."),
 "C03": ("Engine M: add-step for Skewness/Kurtosis (all n), skewness()/kurtosis() accessor identities (sign and squared identity for roots), definitional streams. Rounding-error mode: z3 proves, per sign case, that the rigorous floating-point error bound propagated through the MIR stays inside the envelope C*n*kappa*2^-53*scale for ALL finite data with kappa <= 1e12 on short streams (mean, population_variance n <= 3; third central sum n = 3, kappa <= 1e6, as a counterexample generator whose models are measured on the real build).", "As C01."),
 "C04": ("Engine M on the macro-expanded MIR of define_moments! at N = 4, 5, 6, 8, 10: add-step for every p <= N and all n, central_moment(p)/standardized_moment(p) for every p <= N, definitional streams.", "As C01; instantiation bound N in {4,5,6,8,10}."),
 "C05": ("Engine M: one add from every well-formed marker state (count >= 5, any p in [0,1], real heights) is executed along all ~3.9k feasible paths; on each path the reference P-square update (re-stated from Jain & Chlamtac) is resolved branch by branch with z3 and all 15 state components are shown identical (z3 identity queries); initialisation by five symbolic observations. On changed code whose paths do not close: boundary-directed and small-integer witness queries per path, then a directed probe of the real build. Thorough adds the bit-precise Kani bookkeeping steps.",
         "Positions are integers (z3 Int), heights reals. Trusted: the reference transcription from the paper, mirsym. Outside: bit-level height agreement."),
 "C06": ("Kani/CBMC: for LEN 1..4 (10 thorough) all edge vectors that the real from_ranges accepts (inf, -0.0, repeated edges) x all samples incl. NaN x arbitrary counts: find/add succeed iff in range, the selected bin contains the sample, exactly that count is incremented, totals add. One add from arbitrary counts = induction over add sequences. LEN 20, 33, 100 with concrete edges (symbolic infinite ends and one repeated edge), sample any double.",
         "Verdict is for Kani's pinned core (binary_search choice among equal edges); counterexamples are replayed on the repo toolchain. Outside: LEN 100."),
 "C07": ("Kani/CBMC: n = 1..4 observations in every arrival order against the exact-sample-quantile oracle, p over a 13-bit grid containing every m/4096 and over c/12 +- 1 ulp; values full doubles (n = 1, 3) or a lattice (n = 2, 4), full doubles in thorough.",
         "Outside: free-double p at n = 3, 4."),
 "C08": ("Engine M: add-step for any positive running weight and any weight >= 0, merge-step for all weights, every accessor on symbolic states, and definitional streams of 1..3 (4) pairs under every zero/positive weight pattern with all 2/3-chunk merge trees.", "As C01."),
 "C09": ("Engine M: Covariance add-step and merge-step for all counts, every accessor (pearson via r*sqrt(Sxx*Syy) = Sxy, |r| <= 1), definitional streams with all merge trees and the x<->y swap. Rounding-error mode: z3 proves, per sign case, that the rigorous floating-point error bound propagated through the MIR stays inside the envelope C*n*kappa*2^-53*scale for ALL finite data with kappa <= 1e12 on short streams (coordinate means and variances n <= 3 incl. merged chunks; population/sample covariance of 2 pairs, added or merged).", "As C01."),
 "C10": ("Engine M: sample_variance, variance_of_mean, error, sample_skewness (sign + squared identity, n >= 3; sentinels n = 0,1,2) and sample_excess_kurtosis (n >= 4; NaN below) on every exact summary with symbolic n. Rounding-error mode: z3 proves, per sign case, that the rigorous floating-point error bound propagated through the MIR stays inside the envelope C*n*kappa*2^-53*scale for ALL finite data with kappa <= 1e12 on short streams (sample_variance of Skewness, Kurtosis, Moments4, M6, n <= 3).", "As C01."),
 "C11": ("Kani/CBMC, bit-exact: for every Merge type one merge from arbitrary well-formed (hook-built) states: merging new()/default() on either side leaves every field bit-identical, merged len is the exact sum, is_empty iff len == 0, argument untouched. One step from an arbitrary state covers every history.",
         "State invariant: n == 0 => new() values; n >= 1 => finite fields, sums of squares >= 0. Outside: u64 overflow; Min/Max via C14."),
 "C12": ("Kani/CBMC: from_ranges on every list of 0..LEN+3 unconstrained doubles (LEN 1..4, 10 thorough) equals the first-offender specification; with_const_width structure (LEN+1 edges, first == start, non-decreasing, zero counts) on the full magnitude domain.",
         "Outside: the few-ulp accuracy of with_const_width edges (bit-blasting the divider did not finish), LEN 100."),
 "C13": ("Kani/CBMC: merge and += are the bin-wise sum, commute, associate, keep edges and argument; *= and reset; iteration/widths/centers views; different edges panic on every input (statement after the call unreachable).",
         "Outside: u64 overflow, operand state at the instant of the panic, value of normalized_bins/variance formulas (division)."),
 "C14": ("Kani/CBMC over full-range doubles (NaN, infinities, signed zeros): one-step inductive harness from any non-NaN state plus bounded streams with 3 chunks and both bracketings and all ingestion paths.", "Trusted: CBMC's float model, Kani's core f64::min/max."),
 "C15": ("Kani/CBMC: len/is_empty/p()/NaN-iff-empty/range after every observation for streams of 1 (full doubles), 3 and 5 (lattice) observations; new(p) panics for every invalid p. Engine M: positions and extreme markers on every path of one add from any well-formed state; height ordering and middle marker in [min,max] for the P-square update.",
         "Known finding: two equal odd subnormal observations average below themselves (see known_findings.json)."),
 "C16": ("Kani/CBMC, bit-precise: every accessor of every estimator at sample sizes 0 and 1 (documented sentinels, no panic), sample-size sentinels at 2 and 3, constant streams of any length by an inductive step (n copies of x, add x), and the one documented panic.", "Constant-stream claims over the C01 value domain, counts < 2^53."),
 "C17": ("Kani/CBMC: one add / one merge from arbitrary states with |values| <= 1e150: sums of squares never decrease, every variance >= 0, error not NaN; Welford mean step inside the hull (counts <= 1024). Engine M: merged mean between the operand means, weighted mean in [min,max], effective_len in [1,n].", "Outside: bit-precise merge hull; |x| > 1e150."),
 "C18": ("Kani/CBMC on the serde_derive-generated code of every estimator struct through a lossless in-memory format: from any state with finite fields, serialise -> deserialise gives bit-equal fields, leaves the original untouched, re-serialises identically.", "serde_json's text layer is replaced by the tape format (the property asks for a lossless format)."),
 "C19": ("Kani/CBMC on the real impl_from_par_iterator! expansions over a contract stub of rayon whose schedule (cuts, bracketing, identity insertions) is symbolic: exact len for Mean and Variance (Skewness on concrete data in the thorough tier), exact min/max, empty input, mean within range.", "Real threads are outside Kani; rayon's conformance to its fold/reduce contract is trusted."),
 "C20": ("Engine M: collect by value/reference and extend by value/reference after every prefix perform the identical sequence of add(x) calls with identical argument terms and end in the identical state, for all real inputs; estimate() is term-for-term the headline accessor; concatenate! structs report term-for-term the stand-alone statistics. Kani: bit-level agreement on concrete data with a symbolic split.", "Bit-identity for arbitrary doubles follows from identical call sequences (determinism of add)."),
}

checks = []
for pid in sorted(plan.PLANS):
    pl = plan.PLANS[pid]
    has_k = bool(pl.get("k"))
    has_m = bool(pl.get("m"))
    eng = "K+M" if has_k and has_m else ("M" if has_m else "K")
    tech = []
    if has_m:
        tech.append("symbolic execution of rustc MIR in exact arithmetic (mirsym) with z3 deciding every obligation")
    if has_k:
        tech.append("Kani/CBMC bounded model checking of the compiled crate (bit-precise IEEE-754, SAT)")
    checks.append({
        "property_id": pid,
        "quick_cmd": "./check %s --tier quick" % pid,
        "thorough_cmd": "./check %s --tier thorough" % pid,
        "evidence_file": "evidence/%s.json" % pid,
        "replay_cmd_template": "./check --replay {path}",
        "engine": eng,
        "level_claimed": {"category": "model_checking", "text": TEXT[pid][0], "design_ref": "DESIGN.md section 4, %s" % pid},
        "level_note": TEXT[pid][1] + " Exit 2 (inconclusive: timeout, unknown, vacuity guard, non-reproducing model) is never reported as success.",
        "technique": "; ".join(tech),
    })

man = {
 "version": 1,
 "setup_cmd": "./setup.sh",
 "hooks": {
  "guard": "cargo feature verif-hooks",
  "enable": "harness crates and the MIR dump build average with features [\"verif-hooks\"] (plus std / serde / rayon as needed); default build has it off",
  "baseline_off_cmd": "cd /repo && cargo test --workspace --no-fail-fast --offline",
  "source_commits": ["c707caa"],
  "add_only": True
 },
 "engines": [
  {"name": "K", "path": "kani", "serves_properties": sorted(p for p in plan.PLANS if plan.PLANS[p].get("k")),
   "kind_free_text": "Kani 0.68 proof harnesses (CBMC 6.11 + cadical) over the compiled crate in kani/avk, kani/avk-serde, kani/avk-rayon (path dependency on /repo); counterexamples decoded from concrete playback and replayed natively by replayer*/"},
  {"name": "M", "path": "mirsym", "serves_properties": sorted(p for p in plan.PLANS if plan.PLANS[p].get("m")),
   "kind_free_text": "mirsym: symbolic executor for the MIR printed by `cargo +nightly rustc -- -Zunpretty=mir` of /repo's working tree (and of mirprobe/ for macro expansions), f64 over the reals, z3 decides, cvc5 / z3 4.8.12 cross-check in the thorough tier; counterexamples replayed natively by replayer scenario mode"}
 ],
 "checks": checks,
 "not_applicable": [],
 "notes": "Exit codes: 0 held on everything explored (KNOWN-FINDING lines for listed findings), 1 VIOLATION (solver counterexample reproduced on the real build), 2 inconclusive - never success. VERIF_SEED is recorded; obligations do not depend on it."
}
json.dump(man, open("MANIFEST.json", "w"), indent=1)
print("checks:", len(checks))
