"""Exact-arithmetic symbolic executor for rustc MIR (engine M).

f64 values are interpreted over the reals with an 'undefined' flag (NaN / division by zero / domain error);
integers are Python ints when concrete and z3 Int terms when symbolic; control flow forks on symbolic
branches and each side is kept only if it is satisfiable together with the path condition.
"""
import os
import time
import re
from fractions import Fraction

import z3

from .parser import Function


class Unsupported(Exception):
    pass


# --------------------------------------------------------------------------------------------- values

def is_sym(x):
    return isinstance(x, z3.ExprRef)


def to_real(x):
    if is_sym(x):
        return x
    if isinstance(x, Fraction):
        return z3.RealVal(str(x.numerator) + "/" + str(x.denominator)) if x.denominator != 1 else z3.RealVal(x.numerator)
    return z3.RealVal(x)


def to_int(x):
    return x if is_sym(x) else z3.IntVal(x)


def int_to_real(v):
    if not is_sym(v):
        return Fraction(v)
    return v if v.sort() == z3.RealSort() else z3.ToReal(v)


def to_bool(x):
    return x if is_sym(x) else z3.BoolVal(bool(x))


def b_and(*xs):
    out = []
    for x in xs:
        if x is True:
            continue
        if x is False:
            return False
        out.append(x)
    if not out:
        return True
    return out[0] if len(out) == 1 else z3.And(*out)


def b_or(*xs):
    out = []
    for x in xs:
        if x is False:
            continue
        if x is True:
            return True
        out.append(x)
    if not out:
        return False
    return out[0] if len(out) == 1 else z3.Or(*out)


def b_not(x):
    if x is True:
        return False
    if x is False:
        return True
    return z3.Not(x)


def ite(c, a, b):
    if c is True:
        return a
    if c is False:
        return b
    return z3.If(c, a, b)


class F:
    """A double interpreted over the reals: value r (Fraction or z3 Real) and flag bad (bool or z3 Bool)."""
    __slots__ = ("r", "bad", "inf", "err")

    def __init__(self, r, bad=False, inf=0, err=None):
        if isinstance(r, (int, float)) and not isinstance(r, bool):
            r = Fraction(r)
        self.r = r
        self.bad = bad
        self.inf = inf      # +1 / -1: the constant +-infinity (only Min/Max use it; arithmetic on it is not modelled)
        self.err = err      # rounding mode only: a term bounding |computed double - r| (None = exact / not tracked)

    def __repr__(self):
        if self.inf:
            return "F(%sinf)" % ("+" if self.inf > 0 else "-")
        return "F(%s%s)" % (self.r, "" if self.bad is False else ", bad=%s" % self.bad)


NAN = F(Fraction(0), True)

# exact values of the f64 associated constants a crate may name
FLOAT_CONSTS = {
    "EPSILON": Fraction(1, 2 ** 52),
    "MAX": Fraction((2 ** 53 - 1) * 2 ** (1023 - 52)),
    "MIN": -Fraction((2 ** 53 - 1) * 2 ** (1023 - 52)),
    "MIN_POSITIVE": Fraction(1, 2 ** 1022),
}

# Division encoding. 'div': z3 real division. 'inv': x / y is written x * inv(y) with inv an uninterpreted function and the
# field axiom y != 0 => y * inv(y) = 1 recorded per distinct denominator; identities between expressions that divide by the
# same terms then become polynomial identities over the atoms inv(t).
DIV = {"mode": "div", "axioms": {}}
INV = z3.Function("inv", z3.RealSort(), z3.RealSort())


def real_div(x, y):
    """x / y for z3 real terms under the current division encoding"""
    if DIV["mode"] == "inv":
        ys = z3.simplify(y)
        k = ys.sexpr()
        if k not in DIV["axioms"]:
            DIV["axioms"][k] = z3.Implies(ys != 0, ys * INV(ys) == 1)
        return x * INV(ys)
    return x / y


# Rounding mode: when ROUND["on"], every float operation also propagates a rigorous bound on the rounding error of the
# computed double with respect to the exact real value r (standard model: fl(x op y) = (x op y)(1 + d), |d| <= u = 2^-53,
# no underflow). Used for accuracy claims about short straight-line kernels (with_const_width).
ROUND = {"on": False}
U53 = Fraction(1, 2 ** 53)


def r_abs(x):
    if not is_sym(x):
        return abs(x)
    return z3.If(x >= 0, x, -x)


def f_arith_round_split(op, a, b):
    """err = (e1, R): |computed - exact| <= u*e1 + u^2*R. e1 is the first-order bound (clean coefficients, what the proof
    obligation is about), R collects every higher-order term rigorously (it may contain the numeral u)."""
    exact = f_arith_exact(op, a, b)
    # operations IEEE-754 performs without rounding: x+0, x-0, 0+x, x*1, 1*x, x/1, anything*0, and concrete operands whose
    # concrete result is a double
    ca = (not is_sym(a.r)) and a.err is None
    cb = (not is_sym(b.r)) and b.err is None
    if ca and cb:
        if not is_sym(exact.r) and exact.r == Fraction(float(exact.r)):
            return exact
    if op in ("Add", "Sub") and cb and b.r == 0:
        exact.err = a.err
        return exact
    if op in ("Add", "Sub") and ca and a.r == 0:
        exact.err = b.err
        return exact
    if op in ("Mul", "Div") and cb and b.r == 1:
        exact.err = a.err
        return exact
    if op == "Mul" and ca and a.r == 1:
        exact.err = b.err
        return exact
    if op == "Mul" and ((ca and a.r == 0) or (cb and b.r == 0)):
        return exact
    z = z3.RealVal(0)
    ea1, Ra = a.err if a.err is not None else (z, z)
    eb1, Rb = b.err if b.err is not None else (z, z)
    ra, rb, r = r_abs(to_real(a.r)), r_abs(to_real(b.r)), r_abs(to_real(exact.r))
    u = to_real(U53)
    if op in ("Add", "Sub"):
        i1, iR = ea1 + eb1, Ra + Rb
    elif op == "Mul":
        i1 = ra * eb1 + rb * ea1
        iR = ra * Rb + rb * Ra + ea1 * eb1 + u * (ea1 * Rb + eb1 * Ra) + u * u * Ra * Rb
    elif op == "Div":
        if b.err is not None:
            raise Unsupported("rounding analysis: division by an inexact value")
        i1, iR = ea1 / rb, Ra / rb
    else:
        raise Unsupported("rounding analysis: " + op)
    # err = inh + u*(|r| + inh),  inh = u*i1 + u^2*iR
    exact.err = (z3.simplify(i1 + r), z3.simplify(iR * (1 + u) + i1))
    return exact


def f_arith_round(op, a, b):
    if ROUND["on"] == "split":
        return f_arith_round_split(op, a, b)
    exact = f_arith_exact(op, a, b)
    ea = a.err if a.err is not None else 0
    eb = b.err if b.err is not None else 0
    ra, rb, r = a.r, b.r, exact.r
    R_ = lambda v: to_real(v) if is_sym(v) or True else v
    u = to_real(U53)
    if op in ("Add", "Sub"):
        inh = to_real(ea) + to_real(eb)
    elif op == "Mul":
        inh = r_abs(to_real(ra)) * to_real(eb) + r_abs(to_real(rb)) * to_real(ea) + to_real(ea) * to_real(eb)
    elif op == "Div":
        if not (eb == 0 or (not is_sym(eb) and eb == 0)):
            raise Unsupported("rounding analysis: division by an inexact value")
        inh = to_real(ea) / r_abs(to_real(rb))
    else:
        raise Unsupported("rounding analysis: " + op)
    err = inh + u * (r_abs(to_real(r)) + inh)
    exact.err = err
    return exact


def f_arith(op, a, b):
    if ROUND["on"]:
        return f_arith_round(op, a, b)
    return f_arith_exact(op, a, b)


def f_arith_exact(op, a, b):
    if a.inf or b.inf:
        raise Unsupported("arithmetic on an infinite constant")
    bad = b_or(a.bad, b.bad)
    if not is_sym(a.r) and not is_sym(b.r):
        if op == "Add":
            return F(a.r + b.r, bad)
        if op == "Sub":
            return F(a.r - b.r, bad)
        if op == "Mul":
            return F(a.r * b.r, bad)
        if op == "Div":
            if b.r == 0:
                return F(Fraction(0), True)
            return F(a.r / b.r, bad)
    x, y = to_real(a.r), to_real(b.r)
    if op == "Add":
        return F(x + y, bad)
    if op == "Sub":
        return F(x - y, bad)
    if op == "Mul":
        if not is_sym(a.r) and a.r == 0:
            return F(Fraction(0), bad)
        if not is_sym(b.r) and b.r == 0:
            return F(Fraction(0), bad)
        return F(x * y, bad)
    if op == "Div":
        if not is_sym(b.r):
            if b.r == 0:
                return F(Fraction(0), True)
            return F(x * to_real(1 / b.r), bad)
        return F(real_div(x, y), b_or(bad, y == 0))
    raise Unsupported("float op " + op)


def f_cmp(op, a, b):
    if a.inf or b.inf:
        raise Unsupported("comparison with an infinite constant")
    ok = b_not(b_or(a.bad, b.bad))
    if not is_sym(a.r) and not is_sym(b.r):
        r = {"Lt": a.r < b.r, "Le": a.r <= b.r, "Gt": a.r > b.r, "Ge": a.r >= b.r, "Eq": a.r == b.r, "Ne": a.r != b.r}[op]
    else:
        x, y = to_real(a.r), to_real(b.r)
        r = {"Lt": x < y, "Le": x <= y, "Gt": x > y, "Ge": x >= y, "Eq": x == y, "Ne": x != y}[op]
    if op == "Ne":
        return b_or(b_not(ok), r)   # NaN != anything is true
    return b_and(ok, r)


def log_repr(a):
    if isinstance(a, F) and a.inf:
        return "F(%sinf)" % ("+" if a.inf > 0 else "-")
    if isinstance(a, F):
        return "F(%s|%s)" % (a.r.sexpr() if is_sym(a.r) else a.r, a.bad.sexpr() if is_sym(a.bad) else a.bad)
    if is_sym(a):
        return a.sexpr()
    return repr(a)


class Agg:
    """struct / tuple / array / closure: mutable list of fields."""
    __slots__ = ("fields", "kind", "name")

    def __init__(self, fields, kind="tuple", name=None):
        self.fields = fields
        self.kind = kind
        self.name = name

    def __repr__(self):
        return "%s%r" % (self.name or self.kind, self.fields)


class Enum:
    __slots__ = ("variant", "fields", "name")

    def __init__(self, variant, fields=None, name=None):
        self.variant = variant
        self.fields = fields or []
        self.name = name

    def __repr__(self):
        return "%s(%r)" % (self.variant, self.fields)


class Cell:
    __slots__ = ("v",)

    def __init__(self, v=None):
        self.v = v


class Ref:
    __slots__ = ("cell", "path")

    def __init__(self, cell, path=()):
        self.cell = cell
        self.path = path

    def __repr__(self):
        return "Ref(%r)" % (self.path,)


UNIT = Agg([], "tuple")

VARIANT_DISCR = {"None": 0, "Some": 1, "Ok": 0, "Err": 1, "Less": -1, "Equal": 0, "Greater": 1,
                 "NotEnoughRanges": 0, "NotSorted": 1, "NaN": 2}


def clone_value(v, memo=None):
    """Copy a value (aggregates are value types); references keep pointing at the same cell unless memo remaps it."""
    if hasattr(v, "items") and hasattr(v, "pos") and not isinstance(v, (Agg, Enum)):
        n = type(v)([clone_value(x, memo) for x in v.items])
        n.pos = v.pos
        return n
    if isinstance(v, Agg):
        return Agg([clone_value(x, memo) for x in v.fields], v.kind, v.name)
    if isinstance(v, Enum):
        return Enum(v.variant, [clone_value(x, memo) for x in v.fields], v.name)
    if isinstance(v, Ref):
        if memo is not None:
            return Ref(clone_cell(v.cell, memo), v.path)
        return v
    return v


def clone_cell(c, memo):
    k = id(c)
    if k in memo:
        return memo[k]
    n = Cell(None)
    memo[k] = n
    n.v = clone_value(c.v, memo)
    return n


class Frame:
    __slots__ = ("fn", "cells", "bb", "ret_dest", "ret_bb")

    def __init__(self, fn):
        self.fn = fn
        self.cells = {}
        self.bb = "bb0"
        self.ret_dest = None   # (cell, path) in the caller where _0 goes
        self.ret_bb = None


class State:
    def __init__(self):
        self.frames = []
        self.pc = []           # path condition: list of z3 Bool
        self.trace = []        # human-readable branch decisions
        self.steps = 0
        self.roots = {}        # named cells owned by the query (objects under test), cloned along with the state

    def clone(self):
        memo = {}
        s = State()
        s.roots = {k: clone_cell(c, memo) for k, c in self.roots.items()}
        s.pc = list(self.pc)
        s.trace = list(self.trace)
        s.steps = self.steps
        for f in self.frames:
            g = Frame(f.fn)
            g.bb = f.bb
            g.ret_bb = f.ret_bb
            g.cells = {k: clone_cell(c, memo) for k, c in f.cells.items()}
            g.ret_dest = (clone_cell(f.ret_dest[0], memo), f.ret_dest[1]) if f.ret_dest else None
            s.frames.append(g)
        s._memo = memo
        return s


class Outcome:
    def __init__(self, kind, value, state, msg=None):
        self.kind = kind        # 'return' | 'panic' | 'unreachable'
        self.value = value
        self.pc = state.pc
        self.trace = state.trace
        self.msg = msg
        self.state = state


# --------------------------------------------------------------------------------------------- machine

class Machine:
    def __init__(self, funcs, consts, models, timeout_ms=20000):
        self.funcs = funcs
        self.consts = consts
        self.models = models
        self.solver = z3.Solver()
        self.solver.set("timeout", timeout_ms)
        self.base = []          # global assumptions (domain), z3 Bools
        self.queries = 0
        self.solver_s = 0.0
        self.used_models = set()
        self.used_funcs = set()
        self.max_steps = 200000
        self.deadline = None     # absolute wall-clock deadline of the whole plan (set by mengine.run_set)
        self.run_budget_s = float(os.environ.get("MIRSYM_RUN_BUDGET_S", "150"))   # wall-clock cap for exploring ONE call (never hit on the pinned tree: max 3 s)
        self._index = None
        self._lin = {}
        self.linear_only = True
        self._stack = []         # conditions currently asserted on the incremental solver, one push level each
        self._base_pushed = False
        self.call_log = None     # when a list: every entry into a `::add` function is recorded as (self type, argument terms)

    # ---- solver helpers
    def is_linear(self, e):
        """True if the term contains no product of two non-constant terms and no division by a non-constant term."""
        key = e.get_id()
        hit = self._lin.get(key)
        if hit is not None:
            return hit[1]
        r = True
        if z3.is_app(e):
            k = e.decl().kind()
            ch = e.children()
            if k == z3.Z3_OP_MUL:
                nonconst = [c for c in ch if not z3.is_rational_value(c) and not z3.is_int_value(c)]
                if len(nonconst) > 1:
                    r = False
            elif k in (z3.Z3_OP_DIV, z3.Z3_OP_IDIV, z3.Z3_OP_MOD, z3.Z3_OP_REM, z3.Z3_OP_POWER):
                if not (z3.is_rational_value(ch[1]) or z3.is_int_value(ch[1])):
                    r = False
            elif k == z3.Z3_OP_UNINTERPRETED and ch:
                r = False
            if r:
                for c in ch:
                    if not self.is_linear(c):
                        r = False
                        break
        self._lin[key] = (e, r)     # keep the term alive so that its id is not reused
        return r

    def feasible(self, conds, extra=None):
        """Path feasibility, decided on the linear part of the path condition only: dropping the nonlinear conjuncts
        over-approximates feasibility (an infeasible path may be kept, never the reverse), which is sound for
        'holds on every path' obligations and keeps each query in linear arithmetic.
        The solver's assertion stack mirrors the longest common prefix with the previous query (depth-first exploration
        makes consecutive path conditions share almost everything)."""
        import time
        t0 = time.time()
        try:
            conds = list(conds)
            # synchronise the assertion stack with `conds` (identity of the condition objects)
            k = 0
            n = min(len(self._stack), len(conds))
            while k < n and self._stack[k] is conds[k]:
                k += 1
            while len(self._stack) > k:
                self.solver.pop()
                self._stack.pop()
            if not self._stack and not self._base_pushed:
                for c in self.base:
                    self.solver.add(c)
                self._base_pushed = True
            for c in conds[k:]:
                self.solver.push()
                self._stack.append(c)
                if c is True:
                    continue
                if c is False:
                    self.solver.add(z3.BoolVal(False))
                    continue
                if self.linear_only and not self.is_linear(c):
                    continue
                self.solver.add(c)
            self.queries += 1
            r = self.solver.check()
            if r == z3.unknown:
                # unknown feasibility: keep the path (sound for 'holds on every path' claims)
                return True
            return r == z3.sat
        finally:
            dt = time.time() - t0
            self.solver_s += dt
            if dt > 2.0 and os.environ.get("MIRSYM_VERBOSE"):
                print("  [mirsym] slow feasibility query %.1fs (%d conds)" % (dt, len(conds)), flush=True)

    # ---- function lookup
    def _build_index(self):
        idx = {}
        for name, f in self.funcs.items():
            meth = f.name.rsplit("::", 1)[-1]
            idx.setdefault(meth, []).append(f)
        self._index = idx

    @staticmethod
    def _base_type(t):
        t = t.strip()
        while t.startswith("&"):
            t = t[1:].strip()
            if t.startswith("mut "):
                t = t[4:].strip()
            if t.startswith("'"):
                t = t.split(" ", 1)[1] if " " in t else t
        t = re.sub(r"<.*>$", "", t)
        return t.rsplit("::", 1)[-1]

    def resolve(self, callee, cur_fn):
        """Return a user Function for this callee text, or None."""
        if self._index is None:
            self._build_index()
        if callee in self.funcs:
            return self.funcs[callee]
        if callee.startswith(("f64::<impl", "core::", "std::", "<f64 as", "<u64 as", "<i64 as", "<usize as", "num_traits::", "Option::", "slice::")):
            return None      # library code: handled by the models table
        m = re.fullmatch(r"<(.+) as (.+)>::([A-Za-z_0-9]+)", callee)
        if m:
            ty, meth = self._base_type(m.group(1)), m.group(3)
            trait = m.group(2)
        else:
            parts = callee.rsplit("::", 1)
            if len(parts) != 2:
                return None
            tyfull, meth = parts
            meth = re.sub(r"<.*>$", "", meth)
            if meth.startswith("<"):
                return None
            ty = self._base_type(re.sub(r"::<.*>$", "", tyfull))
            trait = None
        cands = []
        cands_ret = []
        for f in self._index.get(meth, []):
            if "<impl at" not in f.name and "::{closure" not in f.name:
                # trait default methods like traits::Histogram::variance, or free functions (matched exactly above)
                if f.name.rsplit("::", 2)[-2:] == [ty, meth] or f.name.endswith("::" + ty + "::" + meth):
                    cands.append(f)
                continue
            selft = None
            if f.params:
                selft = self._base_type(f.params[0][1])
            rett = self._base_type(f.ret)
            if selft == ty:
                cands.append(f)
            elif rett == ty and (not f.params or not f.params[0][1].strip().startswith("&")):
                # associated function without a self parameter (constructors, hook constructors)
                if selft is None or selft != ty:
                    cands_ret.append(f)
        if not cands:
            cands = cands_ret
        if len(cands) > 1:
            # prefer same module prefix as the current function
            pref = cur_fn.name.split("<impl")[0] if cur_fn else ""
            same = [f for f in cands if f.name.split("<impl")[0] == pref]
            if len(same) >= 1:
                cands = same
        if len(cands) > 1 and trait:
            # trait impl vs inherent with the same name: nothing better to go on than argument shape; keep first
            pass
        if len(cands) >= 1:
            if len(cands) > 1:
                # distinguish by self param: exact self type match first
                exact = [f for f in cands if f.params and self._base_type(f.params[0][1]) == ty]
                if len(exact) == 1:
                    return exact[0]
                raise Unsupported("ambiguous callee %s: %s" % (callee, [f.name for f in cands]))
            return cands[0]
        return None

    # ---- constants
    def const_value(self, text, frame):
        t = text.strip()
        if t == "()":
            return UNIT
        if t in ("true", "false"):
            return t == "true"
        m = re.fullmatch(r"(-?[0-9][0-9_]*)_(u8|u16|u32|u64|u128|usize|i8|i16|i32|i64|i128|isize)", t)
        if m:
            return int(m.group(1).replace("_", ""))
        m = re.fullmatch(r"(-?[0-9][0-9_]*(?:\.[0-9]+)?(?:[eE][-+]?[0-9]+)?)f(32|64)", t)
        if m:
            return F(Fraction(m.group(1).replace("_", "")))
        if t in ("f64::NAN", "core::f64::NAN", "NAN", "f64::consts::NAN") or t.endswith("::NAN"):
            return NAN
        last = t.rsplit("::", 1)[-1]
        if ("f64" in t or "consts" in t) and last in FLOAT_CONSTS:
            return F(FLOAT_CONSTS[last])
        if t.endswith("::NEG_INFINITY"):
            return F(Fraction(0), False, -1)
        if t.endswith("::INFINITY"):
            return F(Fraction(0), False, 1)
        if t.startswith('"'):
            return ("str", t)
        m = re.search(r"::promoted\[(\d+)\]$", t)
        if m:
            key = frame.fn.name + "::promoted[" + m.group(1) + "]"
            if key in self.consts:
                return self.eval_const_body(self.consts[key])
            raise Unsupported("promoted " + t)
        if t in self.consts:
            c = self.consts[t]
            if isinstance(c, Function):
                return self.eval_const_body(c)
            return self.const_value(c, frame)
        # constants named through a module path (e.g. `const MAX_MOMENT`, `const hist::LEN`): match on the last segment and
        # prefer the definition whose module path shares the longest suffix with the use and the prefix with the current function
        last = t.rsplit("::", 1)[-1]
        cands = [(k, c) for k, c in self.consts.items() if k.rsplit("::", 1)[-1] == last and not isinstance(c, Function)]
        if cands:
            tsegs = t.split("::")
            pref = frame.fn.name.split("<impl")[0] if frame is not None else ""

            def score(k):
                ks = k.split("::")
                common = 0
                while common < min(len(ks), len(tsegs)) and ks[-1 - common] == tsegs[-1 - common]:
                    common += 1
                return (common, 1 if k.startswith(pref) and pref else 0)
            cands.sort(key=lambda kc: score(kc[0]), reverse=True)
            return self.const_value(cands[0][1], frame)
        if re.fullmatch(r"[A-Za-z_][A-Za-z0-9_:]*", t):
            # unit struct / fn item / ZST
            return Agg([], "adt", t)
        raise Unsupported("constant " + t)

    def eval_const_body(self, f):
        st = State()
        fr = Frame(f)
        fr.cells = {l: Cell(None) for l in f.locals}
        fr.cells.setdefault("_0", Cell(None))
        st.frames.append(fr)
        outs = self.run(st)
        if len(outs) != 1 or outs[0].kind != "return":
            raise Unsupported("const body " + f.name)
        return outs[0].value

    # ---- places
    def lval(self, place, frame):
        k = place[0]
        if k == "local":
            c = frame.cells.get(place[1])
            if c is None:
                c = frame.cells[place[1]] = Cell(None)
            return c, ()
        if k == "deref":
            c, p = self.lval(place[1], frame)
            v = self.read(c, p)
            if not isinstance(v, Ref):
                raise Unsupported("deref of non-reference %r" % (v,))
            return v.cell, v.path
        if k == "field":
            c, p = self.lval(place[1], frame)
            return c, p + (place[2],)
        if k == "downcast":
            return self.lval(place[1], frame)
        if k == "constindex":
            c, p = self.lval(place[1], frame)
            if place[4]:
                arr = self.read(c, p)
                return c, p + (len(arr.fields) - place[2],)
            return c, p + (place[2],)
        if k == "index":
            c, p = self.lval(place[1], frame)
            idx = frame.cells[place[2]].v
            if is_sym(idx):
                idx2 = z3.simplify(idx)
                if z3.is_int_value(idx2):
                    idx = idx2.as_long()
                else:
                    return c, p + (("sym", idx),)
            return c, p + (idx,)
        raise Unsupported("place kind " + k)

    def read(self, cell, path):
        v = cell.v
        for k in path:
            if isinstance(v, Ref):
                raise Unsupported("implicit deref in path")
            if isinstance(k, tuple) and k[0] == "sym":
                v = self.select(v, k[1])
                continue
            if v is None:
                raise Unsupported("read of uninitialised place")
            try:
                v = v.fields[k]
            except (IndexError, AttributeError):
                raise Unsupported("bad projection %r on %r" % (k, v))
        return v

    def select(self, arr, idx):
        """arr[idx] for a symbolic idx: ITE chain (scalars only)."""
        elems = arr.fields
        out = elems[-1]
        for j in range(len(elems) - 2, -1, -1):
            out = self.ite_val(idx == j, elems[j], out)
        return out

    def ite_val(self, c, a, b):
        if isinstance(a, F) and isinstance(b, F):
            return F(ite(c, to_real(a.r), to_real(b.r)), ite(c, to_bool(a.bad), to_bool(b.bad)) if (a.bad is not False or b.bad is not False) else False)
        if isinstance(a, (int, z3.ArithRef)) and not isinstance(a, bool) and isinstance(b, (int, z3.ArithRef)) and not isinstance(b, bool):
            return ite(c, to_int(a), to_int(b))
        if isinstance(a, (bool, z3.BoolRef)) and isinstance(b, (bool, z3.BoolRef)):
            return ite(c, to_bool(a), to_bool(b))
        raise Unsupported("ite over %r / %r" % (a, b))

    def write(self, cell, path, val):
        if not path:
            cell.v = val
            return
        v = cell.v
        for k in path[:-1]:
            if isinstance(k, tuple):
                raise Unsupported("symbolic index in the middle of a write path")
            v = v.fields[k]
        last = path[-1]
        if isinstance(last, tuple) and last[0] == "sym":
            idx = last[1]
            for j in range(len(v.fields)):
                v.fields[j] = self.ite_val(idx == j, val, v.fields[j])
            return
        if v is None:
            raise Unsupported("write into uninitialised aggregate")
        while len(v.fields) <= last:
            v.fields.append(None)
        v.fields[last] = val

    # ---- operands / rvalues
    def operand(self, op, frame):
        if op[0] in ("copy", "move"):
            c, p = self.lval(op[1], frame)
            return clone_value(self.read(c, p))
        if op[0] == "const":
            return self.const_value(op[1], frame)
        raise Unsupported("operand " + repr(op))

    def int_bounds(self, ty):
        m = re.fullmatch(r"(u|i)(8|16|32|64|128|size)", ty)
        if not m:
            return None
        bits = 64 if m.group(2) == "size" else int(m.group(2))
        if m.group(1) == "u":
            return 0, (1 << bits) - 1
        return -(1 << (bits - 1)), (1 << (bits - 1)) - 1

    def binop(self, name, a, b, frame, dest_ty=None):
        if isinstance(a, F) or isinstance(b, F):
            if name in ("Add", "Sub", "Mul", "Div"):
                return f_arith(name, a, b)
            if name in ("Lt", "Le", "Gt", "Ge", "Eq", "Ne"):
                return f_cmp(name, a, b)
            raise Unsupported("float binop " + name)
        if isinstance(a, (bool, z3.BoolRef)) and isinstance(b, (bool, z3.BoolRef)):
            if name in ("BitAnd",):
                return b_and(a, b)
            if name in ("BitOr",):
                return b_or(a, b)
            if name == "Eq":
                return (a == b) if not (is_sym(a) or is_sym(b)) else (to_bool(a) == to_bool(b))
            if name == "Ne":
                return (a != b) if not (is_sym(a) or is_sym(b)) else (to_bool(a) != to_bool(b))
            raise Unsupported("bool binop " + name)
        sym = is_sym(a) or is_sym(b)
        if name in ("Add", "Sub", "Mul", "AddUnchecked", "SubUnchecked", "MulUnchecked"):
            base = name.replace("Unchecked", "")
            if not sym:
                return {"Add": a + b, "Sub": a - b, "Mul": a * b}[base]
            x, y = to_int(a), to_int(b)
            return {"Add": x + y, "Sub": x - y, "Mul": x * y}[base]
        if name in ("AddWithOverflow", "SubWithOverflow", "MulWithOverflow"):
            base = name[:3]
            r = self.binop(base, a, b, frame)
            lo, hi = self.int_bounds(dest_ty) if dest_ty else (None, None)
            if lo is None:
                ov = False
            elif not is_sym(r):
                ov = not (lo <= r <= hi)
            else:
                ov = z3.Or(r < lo, r > hi)
            return Agg([r, ov], "tuple")
        if name == "Div":
            if not sym:
                if b == 0:
                    raise Unsupported("integer division by zero")
                q = abs(a) // abs(b)
                return q if (a >= 0) == (b >= 0) else -q
            x, y = to_int(a), to_int(b)
            # operands here are non-negative in this crate (u64 binomial arithmetic); z3 div is floor for positive divisors
            return x / y
        if name == "Rem":
            if not sym:
                return abs(a) % abs(b) * (1 if a >= 0 else -1)
            return to_int(a) % to_int(b)
        if name in ("Lt", "Le", "Gt", "Ge", "Eq", "Ne"):
            if not sym:
                return {"Lt": a < b, "Le": a <= b, "Gt": a > b, "Ge": a >= b, "Eq": a == b, "Ne": a != b}[name]
            x, y = to_int(a), to_int(b)
            return {"Lt": x < y, "Le": x <= y, "Gt": x > y, "Ge": x >= y, "Eq": x == y, "Ne": x != y}[name]
        raise Unsupported("int binop " + name)

    def rvalue(self, rv, frame, dest_ty=None):
        k = rv[0]
        if k == "use":
            return self.operand(rv[1], frame)
        if k == "binop":
            a = self.operand(rv[2], frame)
            b = self.operand(rv[3], frame)
            ty = None
            if rv[1].endswith("WithOverflow") and dest_ty:
                m = re.match(r"\((\w+), bool\)", dest_ty)
                ty = m.group(1) if m else None
            return self.binop(rv[1], a, b, frame, ty)
        if k == "unop":
            a = self.operand(rv[2], frame)
            if rv[1] == "Neg":
                if isinstance(a, F):
                    return F(-a.r, a.bad, -a.inf if a.inf else 0, a.err)    # negation is exact: the error bound carries over
                return -a
            if rv[1] == "Not":
                if isinstance(a, (bool, z3.BoolRef)):
                    return b_not(a)
                raise Unsupported("bitwise not on integer")
            raise Unsupported("unop " + rv[1])
        if k == "ref" or k == "rawptr":
            c, p = self.lval(rv[2] if k == "ref" else rv[1], frame)
            return Ref(c, p)
        if k == "cast":
            v = self.operand(rv[1], frame)
            kind = rv[3]
            if kind == "IntToInt":
                return v
            if kind == "IntToFloat":
                return F(int_to_real(v))
            if kind.startswith("PointerCoercion") or kind in ("PtrToPtr", "Transmute"):
                return v
            if kind == "FloatToInt":
                if not is_sym(v.r):
                    return int(v.r)
                raise Unsupported("symbolic float to int cast")
            if kind == "FloatToFloat":
                return v
            raise Unsupported("cast " + kind)
        if k == "aggregate":
            kind, name, fields = rv[1], rv[2], rv[3]
            vals = [self.operand(o, frame) for _, o in fields]
            if kind in ("array", "tuple"):
                return Agg(vals, kind)
            if kind in ("adt", "adt_tuple", "adt_unit"):
                last = name.rsplit("::", 1)[-1] if name else name
                last = re.sub(r"<.*>$", "", last)
                if last in VARIANT_DISCR and ("Option" in name or "Result" in name or "Ordering" in name or "InvalidRangeError" in name):
                    return Enum(last, vals, name)
                return Agg(vals, "adt", name)
        if k == "repeat":
            v = self.operand(rv[1], frame)
            cnt = rv[2].strip()
            if cnt.startswith("const "):
                cnt = cnt[6:]
            try:
                n = int(re.sub(r"_usize$", "", cnt))
            except ValueError:
                n = self.const_value(cnt, frame)
            return Agg([clone_value(v) for _ in range(n)], "array")
        if k == "len":
            c, p = self.lval(rv[1], frame)
            return len(self.read(c, p).fields)
        if k == "discriminant":
            c, p = self.lval(rv[1], frame)
            v = self.read(c, p)
            if isinstance(v, Enum):
                return VARIANT_DISCR[v.variant]
            if isinstance(v, tuple) and v[0] == "symenum":
                return v[1]
            raise Unsupported("discriminant of %r" % (v,))
        raise Unsupported("rvalue " + repr(rv)[:100])

    # ---- execution
    def start(self, fn, args, pc=(), roots=None):
        st = State()
        st.pc = list(pc)
        st.roots = dict(roots or {})
        self.push_frame(st, fn, args)
        return st

    def push_frame(self, st, fn, args):
        fr = Frame(fn)
        fr.cells = {l: Cell(None) for l in fn.locals}
        fr.cells.setdefault("_0", Cell(None))
        if len(args) != len(fn.params):
            raise Unsupported("arity mismatch calling %s" % fn.name)
        for (loc, _), a in zip(fn.params, args):
            fr.cells[loc] = Cell(a)
        st.frames.append(fr)
        self.used_funcs.add(fn.name)
        if self.call_log is not None and fn.name.endswith("::add") and fn.params:
            self.call_log.append((self._base_type(fn.params[0][1]), [log_repr(a) for a in args[1:]]))
        return fr

    def run(self, st0):
        """Explore all feasible paths from st0; returns a list of Outcomes."""
        work = [st0]
        outs = []
        depth0 = len(st0.frames)
        verbose = os.environ.get("MIRSYM_VERBOSE")
        t_run = time.time()
        while work:
            st = work.pop()
            if self.deadline is not None and time.time() > self.deadline:
                raise Unsupported("engine-M plan budget used up during exploration (%d paths finished, %d pending)" % (len(outs), len(work) + 1))
            if time.time() - t_run > self.run_budget_s:
                raise Unsupported("exploration budget of %.0f s used up with %d paths finished and %d pending: the function forks on conditions "
                                  "the linear feasibility filter cannot prune" % (self.run_budget_s, len(outs), len(work) + 1))
            if verbose and len(outs) % 50 == 0 and len(outs):
                print("  [mirsym] %d paths finished, %d pending, %d feasibility queries, %.1fs in solver" % (len(outs), len(work), self.queries, self.solver_s), flush=True)
            while True:
                st.steps += 1
                if st.steps > self.max_steps:
                    raise Unsupported("step limit")
                fr = st.frames[-1]
                blk = fr.fn.blocks.get(fr.bb)
                if blk is None or blk[0] == "error":
                    raise Unsupported("unparsed block %s in %s: %s" % (fr.bb, fr.fn.name, blk))
                stmts, term = blk
                for s in stmts:
                    if s[0] == "assign":
                        c, p = self.lval(s[1], fr)
                        dest_ty = fr.fn.locals.get(s[1][1]) if s[1][0] == "local" else None
                        self.write(c, p, self.rvalue(s[2], fr, dest_ty))
                t = term[0]
                if t == "goto":
                    fr.bb = term[1]
                    continue
                if t == "drop":
                    fr.bb = term[2]
                    continue
                if t == "return":
                    val = fr.cells["_0"].v
                    st.frames.pop()
                    if len(st.frames) < depth0:
                        outs.append(Outcome("return", val, st))
                        break
                    caller = st.frames[-1]
                    if fr.ret_dest is not None:
                        self.write(fr.ret_dest[0], fr.ret_dest[1], val)
                    caller.bb = fr.ret_bb
                    continue
                if t in ("unreachable", "resume"):
                    outs.append(Outcome("unreachable", None, st, "reached `%s` in %s %s" % (t, fr.fn.name, fr.bb)))
                    break
                if t == "switch":
                    v = self.operand(term[1], fr)
                    if isinstance(v, bool):
                        v = 1 if v else 0
                    if isinstance(v, z3.BoolRef):
                        vv = z3.simplify(v)
                        if z3.is_true(vv):
                            v = 1
                        elif z3.is_false(vv):
                            v = 0
                    if not is_sym(v):
                        tgt = term[3]
                        for val, bb in term[2]:
                            if val == v:
                                tgt = bb
                                break
                        if tgt is None:
                            raise Unsupported("switch without matching target")
                        fr.bb = tgt
                        continue
                    # symbolic: fork
                    alts = []
                    if isinstance(v, z3.BoolRef):
                        conds = {1: v, 0: z3.Not(v)}
                        seen = []
                        for val, bb in term[2]:
                            c = conds.get(val, z3.BoolVal(False))
                            alts.append((c, bb, "%s==%s" % (term[1][1] if len(term[1]) > 1 else "", val)))
                            seen.append(c)
                        if term[3] is not None:
                            alts.append((z3.Not(z3.Or(*seen)) if seen else z3.BoolVal(True), term[3], "otherwise"))
                    else:
                        seen = []
                        for val, bb in term[2]:
                            alts.append((v == val, bb, "==%s" % val))
                            seen.append(v == val)
                        if term[3] is not None:
                            alts.append((z3.Not(z3.Or(*seen)) if seen else z3.BoolVal(True), term[3], "otherwise"))
                    live = [(c, bb, d) for (c, bb, d) in alts if self.feasible(st.pc + [c])]
                    if not live:
                        outs.append(Outcome("unreachable", None, st, "no feasible switch target"))
                        break
                    for j, (c, bb, d) in enumerate(live):
                        s2 = st if j == len(live) - 1 else st.clone()
                        s2.pc.append(c)
                        s2.trace.append("%s:%s %s -> %s" % (fr.fn.name.rsplit("::", 1)[-1], fr.bb, d, bb))
                        s2.frames[-1].bb = bb
                        if s2 is not st:
                            work.append(s2)
                    continue
                if t == "assert":
                    v = self.operand(term[1], fr)
                    exp = term[2]
                    okc = v if exp else b_not(v)
                    if isinstance(okc, z3.BoolRef):
                        okc2 = z3.simplify(okc)
                        if z3.is_true(okc2):
                            okc = True
                        elif z3.is_false(okc2):
                            okc = False
                    if okc is True:
                        fr.bb = term[4]
                        continue
                    if okc is False:
                        outs.append(Outcome("panic", None, st, "assert failed: %s in %s" % (term[3][:60], fr.fn.name)))
                        break
                    bad = b_not(okc)
                    if self.feasible(st.pc + [bad]):
                        s2 = st.clone()
                        s2.pc.append(bad)
                        outs.append(Outcome("panic", None, s2, "assert can fail: %s in %s" % (term[3][:60], fr.fn.name)))
                    if not self.feasible(st.pc + [okc]):
                        break
                    st.pc.append(okc)
                    fr.bb = term[4]
                    continue
                if t == "call":
                    dest, callee, argops, ret_bb = term[1], term[2], term[3], term[4]
                    args = [self.operand(a, fr) for a in argops]
                    fn = self.resolve(callee, fr.fn)
                    if fn is not None:
                        dc = self.lval(dest, fr) if dest is not None else None
                        nf = self.push_frame(st, fn, args)
                        nf.ret_dest = dc
                        nf.ret_bb = ret_bb
                        continue
                    model = self.models.lookup(callee)
                    if model is None:
                        raise Unsupported("no model for callee `%s` (in %s)" % (callee, fr.fn.name))
                    self.used_models.add(model.__name__)
                    res = model(self, st, fr, callee, args)
                    # a model returns either a value, or ('panic', msg), or ('fork', [(cond, value)...])
                    if isinstance(res, tuple) and res and res[0] == "panic":
                        outs.append(Outcome("panic", None, st, res[1]))
                        break
                    if isinstance(res, tuple) and res and res[0] == "fork":
                        live = [(c, val) for (c, val) in res[1] if self.feasible(st.pc + [c])]
                        if not live:
                            outs.append(Outcome("unreachable", None, st, "model fork infeasible"))
                            break
                        done = False
                        for j, (c, val) in enumerate(live):
                            s2 = st if j == len(live) - 1 else st.clone()
                            s2.pc.append(c)
                            f2 = s2.frames[-1]
                            if isinstance(val, tuple) and val and val[0] == "panic":
                                outs.append(Outcome("panic", None, s2, val[1]))
                                if s2 is st:
                                    done = True
                                continue
                            if ret_bb is None:
                                outs.append(Outcome("panic", None, s2, "diverging call " + callee))
                                if s2 is st:
                                    done = True
                                continue
                            dc = self.lval(dest, f2)
                            # references inside val point into st's cells; remap for clones
                            if s2 is not st:
                                val = clone_value(val, s2._memo)
                            self.write(dc[0], dc[1], val)
                            f2.bb = ret_bb
                            if s2 is not st:
                                work.append(s2)
                        if done:
                            break
                        continue
                    if ret_bb is None:
                        outs.append(Outcome("panic", None, st, "diverging call " + callee))
                        break
                    dc = self.lval(dest, fr)
                    self.write(dc[0], dc[1], res)
                    fr.bb = ret_bb
                    continue
                raise Unsupported("terminator " + t)
        return outs
