"""Engine M obligations for C20: every ingestion path performs the same sequence of add() calls with the same arguments
on the same initial state, and ends in the same state; concatenate! structs report what the underlying estimators report."""
import re

import z3

from .interp import F, Agg, Cell, Ref, Unsupported, b_and, clone_value, is_sym, to_bool, to_real
from .lib import feq, g_feed, gconj
from .models import ListIter

SINGLE = ["Mean", "Variance", "Skewness", "Kurtosis", "Moments4"]   # Min/Max (infinite initial value) are decided by engine K (c14::ingest*)
PAIR = ["WeightedMean", "WeightedMeanWithError", "Covariance"]


def find_impls(W, ty, meth):
    """all MIR functions named `meth` whose return type or first parameter is `ty` (from_iter / extend, by value and by reference)"""
    out = []
    for name, f in W.m.funcs.items():
        if not f.name.endswith("::" + meth):
            continue
        rett = W.m._base_type(f.ret)
        selft = W.m._base_type(f.params[0][1]) if f.params else None
        if meth == "from_iter" and rett == ty:
            out.append(f)
        if meth == "extend" and selft == ty:
            out.append(f)
    return out


def canon(s):
    """rename the fresh symbols of the sqrt/powf models by order of appearance so that two runs are comparable"""
    seen = {}

    def sub(m):
        k = m.group(0)
        if k not in seen:
            seen[k] = "%s!#%d" % (m.group(1), len(seen))
        return seen[k]
    return re.sub(r"(sqrt|pow15)!\d+", sub, s)


def by_ref(f):
    """does this from_iter/extend variant consume references?"""
    return any(re.search(r"Option<&", t) for t in f.locals.values())


def state_terms(W, ty, v):
    """flatten the hook parts into a list of comparable strings"""
    from .interp import log_repr

    def flat(x):
        if isinstance(x, Agg):
            out = []
            for y in x.fields:
                out += flat(y)
            return out
        return [x]
    if ty in ("Min", "Max"):
        c = Cell(v)
        meth = "min" if ty == "Min" else "max"
        outs = W.run(ty, meth, [Ref(c, ())])
        return [log_repr(o.value) for o in outs]
    return [log_repr(t) for t in flat(W.parts(ty, v))]


def run_logged(W, fn, args, pc=(), roots=None):
    W.m.call_log = []
    try:
        outs = W.m.run(W.m.start(fn, args, pc, roots))
        return outs, list(W.m.call_log)
    finally:
        W.m.call_log = None


def mk_items(vals, ref, pair):
    items = []
    for v in vals:
        x = Agg([F(v[0]), F(v[1])], "tuple") if pair else F(v)
        items.append(Ref(Cell(x), ()) if ref else x)
    return ListIter(items)


def check_ingestion(W, prop, ty, k):
    pair = ty in PAIR
    if pair:
        vals = [(z3.Real("x%d" % j), z3.Real("w%d" % j)) for j in range(k)]
        adds = [[F(a), F(b)] for (a, b) in vals]
    else:
        vals = [z3.Real("x%d" % j) for j in range(k)]
        adds = [[F(a)] for a in vals]
    pre = [w >= 0 for (_, w) in vals] if ty.startswith("Weighted") else []
    # reference: add loop from new()
    W.m.call_log = []
    ref_states = g_feed(W, ty, adds, pre)
    ref_log = [e for e in W.m.call_log if e[0] == ty]
    W.m.call_log = None
    if len(ref_states) != 1 or isinstance(ref_states[0][1], str):
        # value-dependent branching in add itself: compare path by path through the guards
        pass
    ref_terms = {tuple(str(c) for c in extra): state_terms(W, ty, v) for extra, v in ref_states if not isinstance(v, str)}
    problems = []
    n_variants = 0
    for f in find_impls(W, ty, "from_iter"):
        n_variants += 1
        outs, log = run_logged(W, f, [mk_items(vals, by_ref(f), pair)], pc=pre)
        log = [e for e in log if e[0] == ty]
        for o in outs:
            if o.kind != "return":
                problems.append("%s: %s" % (f.name, o.msg))
                continue
            key = tuple(str(c) for c in o.pc[len(pre):])
            want = ref_terms.get(key)
            got = state_terms(W, ty, o.value)
            if want is None or want != got:
                problems.append("from_iter(%s) ends in a different state on path %s" % ("&" if by_ref(f) else "value", key))
        if len(ref_states) == 1 and log != ref_log:
            problems.append("from_iter(%s) performs a different sequence of add calls: %d vs %d" % ("&" if by_ref(f) else "value", len(log), len(ref_log)))
    for f in find_impls(W, ty, "extend"):
        for cut in range(0, k + 1):
            n_variants += 1
            W.m.call_log = []
            heads = g_feed(W, ty, adds[:cut], pre)
            head_log = [e for e in W.m.call_log if e[0] == ty]
            W.m.call_log = None
            for extra, hv in heads:
                if isinstance(hv, str):
                    continue
                c = Cell(clone_value(hv))
                outs, log = run_logged(W, f, [Ref(c, ()), mk_items(vals[cut:], by_ref(f), pair)], pc=list(pre) + list(extra), roots={"self": c})
                log = head_log + [e for e in log if e[0] == ty]
                for o in outs:
                    if o.kind != "return":
                        problems.append("%s: %s" % (f.name, o.msg))
                        continue
                    key = tuple(str(cc) for cc in o.pc[len(pre):])
                    want = ref_terms.get(key)
                    got = state_terms(W, ty, o.state.roots["self"].v)
                    if want is None or want != got:
                        problems.append("extend(%s) after %d adds ends in a different state" % ("&" if by_ref(f) else "value", cut))
                if len(ref_states) == 1 and log != ref_log:
                    problems.append("extend(%s) after %d adds performs a different sequence of add calls" % ("&" if by_ref(f) else "value", cut))
    res = {"obligation": "M:%s ingestion paths (%d variants x %d symbolic values)" % (ty, n_variants, k), "engine": "mirsym",
           "role": "%s:%s.ingestion-paths" % (prop, ty), "solver_s": 0.0,
           "note": "collect by value / by reference and extend by value / by reference after every prefix length: identical sequence of add(x) "
                   "calls with identical argument terms and a syntactically identical final state, for all real inputs (so bit-identical "
                   "in floating point by determinism of add)"}
    if n_variants == 0:
        res.update(verdict="inconclusive", reason="no from_iter/extend implementation found for %s" % ty)
    elif problems:
        res.update(verdict="violated", reason="; ".join(problems[:4]))
        res["_replay"] = (ingest_replay(ty, k, pair), {})
    else:
        res.update(verdict="proved")
    W.results.append(res)


PROBE = [0.1, 0.7, 1000000000.3, -2.5e-3, 3.0]
PROBE_W = [0.3, 1.7, 2.1, 0.0, 5.5]


def ingest_replay(ty, k, pair):
    """native confirmation of an ingestion-path difference: the add loop, both collects and both extends after every
    prefix length are run on fixed non-dyadic probe data; all final states must be bit-identical"""
    from .replay import f2w

    def build(vals):
        items = ["%s%s" % (f2w(PROBE[j]), (" " + f2w(PROBE_W[j])) if pair else "") for j in range(k)]
        program = ["new " + ty] + ["add " + it for it in items] + ["dump"]
        for how in ("val", "ref"):
            program += ["collect_%s %s %s" % (how, ty, " ".join(items)), "dump"]
            for cut in range(k + 1):
                program += ["new " + ty] + ["add " + it for it in items[:cut]] + ["extend_%s %s" % (how, " ".join(items[cut:])), "dump"]
        return program, None, {"mode": "all-dumps-bit-equal", "probe": PROBE[:k], "weights": PROBE_W[:k] if pair else None}
    return {"vars": [], "build": build}


def check_estimate_headline(W, prop):
    from .moments import FAMILY, mk, sym_state, rep_inv
    heads = {"Mean": "mean", "Variance": "population_variance", "Skewness": "skewness", "Kurtosis": "kurtosis"}
    for ty, acc in heads.items():
        P, _ = FAMILY[ty]
        n, mu, M = sym_state("", P)
        pre = rep_inv(n, mu, M)
        st = mk(W, ty, n, mu, M)
        a = W.method(ty, "estimate", st, pc=pre)
        b = W.method(ty, acc, st, pc=pre)
        from .interp import log_repr
        ta = sorted(canon(str((tuple(str(c) for c in o.pc[len(pre):]), log_repr(o.value) if o.kind == "return" else "panic"))) for o, _ in a)
        tb = sorted(canon(str((tuple(str(c) for c in o.pc[len(pre):]), log_repr(o.value) if o.kind == "return" else "panic"))) for o, _ in b)
        res = {"obligation": "M:%s.estimate() is %s()" % (ty, acc), "engine": "mirsym", "role": "%s:%s.estimate-is-headline" % (prop, ty),
               "solver_s": 0.0, "note": "on every path the returned term of estimate() is syntactically the term of the headline accessor"}
        res.update(verdict="proved") if ta == tb else res.update(verdict="violated", reason="estimate() and %s() differ" % acc, _replay=None)
        W.results.append(res)


def check_concatenate(W, prop, k):
    """mirprobe::cat::{CatShort, CatLong}: every statistic equals the stand-alone estimator's, for new(), default(), from_iter"""
    from .interp import log_repr
    vals = [z3.Real("x%d" % j) for j in range(k)]
    specs = {"CatShort": [("Min", "min"), ("Max", "max"), ("Mean", "mean")],
             "CatLong": [("Variance", "mean"), ("Variance", "sample_variance"), ("Variance", "population_variance"), ("Variance", "error"),
                         ("Quantile", "quantile"), ("Kurtosis", "kurtosis"), ("Kurtosis", "skewness")]}
    for cat, stats in specs.items():
        problems = []
        builds = []
        for ctor in ("new", "default"):
            v0 = W.call_pure(cat, ctor, [])
            builds.append((ctor + "+add", g_feed(W, cat, [[F(x)] for x in vals], start=v0)))
        for f in find_impls(W, cat, "from_iter"):
            outs = W.m.run(W.m.start(f, [mk_items(vals, by_ref(f), False)]))
            builds.append(("collect(%s)" % ("&" if by_ref(f) else "value"), [(list(o.pc), o.value if o.kind == "return" else "panic:" + str(o.msg)) for o in outs]))
        if len(builds) < 3:
            problems.append("from_iter of %s not found" % cat)
        for ty, stat in stats:
            if ty == "Quantile":
                alone0 = W.call_pure("Quantile", "default", [])
                alone = g_feed(W, ty, [[F(x)] for x in vals], start=alone0)
            else:
                alone = g_feed(W, ty, [[F(x)] for x in vals])
            want = sorted((tuple(str(c) for c in extra) + tuple(str(c) for c in o.pc), log_repr(o.value) if o.kind == "return" else "panic")
                          for extra, v in alone if not isinstance(v, str) for o, _ in W.method(ty, stat, v, pc=list(extra)))
            want_vals = sorted(set(canon(t[1]) for t in want))
            for label, gv in builds:
                got_vals = sorted(set(canon(log_repr(o.value)) if o.kind == "return" else "panic"
                                      for extra, v in gv if not isinstance(v, str) for o, _ in W.method(cat, stat, v, pc=list(extra))))
                if got_vals != want_vals:
                    problems.append("%s via %s: %s() differs from %s::%s()" % (cat, label, stat, ty, stat))
        res = {"obligation": "M:concatenate! %s (%d statistics x %d construction paths, %d symbolic values)" % (cat, len(stats), len(builds), k),
               "engine": "mirsym", "role": "%s:concatenate.%s" % (prop, cat), "solver_s": 0.0,
               "note": "each statistic of the generated struct is, term for term, the statistic of the stand-alone estimator fed the same sequence"}
        res.update(verdict="proved") if not problems else res.update(verdict="violated", reason="; ".join(problems[:4]), _replay=None)
        W.results.append(res)
