"""Engine M entry points: per-property obligation sets, native confirmation of counterexamples, evidence records."""
import json
import os
import time
import traceback

from . import moments as mo
from . import pairs as pr
from . import replay as rpl
from .interp import Unsupported
from .lib import World

VERIF = os.path.dirname(os.path.dirname(os.path.abspath(__file__)))
REPLAYS = os.path.join(VERIF, "replays")


def parts_mismatch(d, e, scale):
    """Quantile replays carry the exact expected marker state in e['_parts'] = 5 heights, 5 positions, 5 desired positions"""
    exp = e.get("_parts")
    if not exp or not d.get("parts") or len(d["parts"]) < 15:
        return []
    bad = []
    w = d["parts"]
    for j in range(15):
        if 5 <= j < 10:
            v = int(w[j], 16)
            if v >= 1 << 63:
                v -= 1 << 64
            if v != int(exp[j]):
                bad.append(("position[%d]" % (j - 5), v, int(exp[j])))
        else:
            v = rpl.w2f(w[j])
            x = float(exp[j])
            if not (abs(v - x) <= 1e-9 * max(abs(v), abs(x), 1e-3 * scale)):
                bad.append((("height[%d]" % j) if j < 5 else ("desired[%d]" % (j - 10)), v, x))
    for j in range(15, min(len(exp), len(w), 20)):      # increments of the desired positions, when the recipe states them
        v = rpl.w2f(w[j])
        x = float(exp[j])
        if not (abs(v - x) <= 1e-9 * max(abs(v), abs(x), 1e-3)):
            bad.append(("increment[%d]" % (j - 15), v, x))
    return bad


def const_width_misses(dumps, profile):
    """each dump: parts = [LEN, start, end, edge0..edgeLEN] as hex words; exact edge i = start + i*(end-start)/LEN"""
    import math
    from fractions import Fraction
    out = []
    for k, d in enumerate(dumps):
        w = d.get("parts") or []
        if len(w) < 4:
            continue
        L = int(w[0], 16)
        a, b = rpl.w2f(w[1]), rpl.w2f(w[2])
        big = max(abs(a), abs(b))
        ulp = math.ulp(big)
        fa, fb = Fraction(a), Fraction(b)
        for i in range(L + 1):
            got = rpl.w2f(w[3 + i])
            exact = fa + i * (fb - fa) / L
            if math.isnan(got) or abs(Fraction(got) - exact) > 8 * Fraction(ulp):
                out.append({"profile": profile, "LEN": L, "start": a, "end": b, "edge": i, "got": got, "exact": float(exact),
                            "off_by_ulps": None if math.isnan(got) else float(abs(Fraction(got) - exact) / Fraction(ulp))})
                break
        if len(out) >= 4:
            break
    return out


def confirm(prop, res):
    """Replay a violated obligation natively. Returns ('violated', path) | ('inconclusive', reason)."""
    rp_ = res.get("_replay")
    if not rp_:
        return "inconclusive", "solver counterexample has no replay recipe"
    desc, vals = rp_
    if vals is None:
        return "inconclusive", "no model values"
    try:
        program, expected, info = desc["build"](vals)
    except Exception as e:
        return "inconclusive", "counterexample cannot be replayed: %r" % (e,)
    mism = []
    for profile in ("debug", "release"):
        try:
            dumps = rpl.run_scenario(program, profile)
        except Exception as e:
            return "inconclusive", "replayer failed: %r" % (e,)
        if dumps and "_panic" in dumps[0]:
            mism.append({"profile": profile, "panic": dumps[0]["_panic"]})
            continue
        if info.get("mode") == "all-dumps-bit-equal":
            for k, d in enumerate(dumps[1:], 1):
                if d.get("parts") != dumps[0].get("parts"):
                    mism.append({"profile": profile, "dump": k, "parts": d.get("parts"), "reference_parts": dumps[0].get("parts")})
            continue
        if info.get("mode") == "const-width-probes":
            mism += const_width_misses(dumps, profile)
            continue
        if info.get("mode") == "envelope":
            from .rounding import envelope_misses
            mism += envelope_misses(dumps, info, profile)
            continue
        for k, (d, e) in enumerate(zip(dumps, expected)):
            bad = rpl.compare(d, e, rel=1e-9, scale=info.get("scale", 1.0)) + parts_mismatch(d, e, info.get("scale", 1.0))
            if bad:
                mism.append({"profile": profile, "dump": k, "mismatch": [(n, a, x) for (n, a, x) in bad[:6]]})
    if not mism:
        return "inconclusive", "solver counterexample did not reproduce on the real build (inputs %s)" % ({k: str(v) for k, v in vals.items()},)
    os.makedirs(REPLAYS, exist_ok=True)
    path = os.path.join(REPLAYS, "%s__M_%s.json" % (prop, "".join(c if c.isalnum() else "_" for c in res["obligation"])[:80]))
    with open(path, "w") as f:
        json.dump({"property": prop, "engine": "mirsym", "obligation": res["obligation"], "role": res["role"],
                   "values": {k: str(v) for k, v in vals.items()}, "program": program,
                   "expected": None if expected is None else [{k: (None if v is None else (v if isinstance(v, (str, list)) else float(v))) for k, v in e.items()} for e in expected],
                   "native_mismatches": mism, "info": info}, f, indent=1, default=str)
    res["native_mismatches"] = mism[:3]
    return "violated", path


def replay_file(path):
    rec = json.load(open(path))
    bad_total = 0
    for profile in ("debug", "release"):
        dumps = rpl.run_scenario(rec["program"], profile)
        if rec.get("info", {}).get("mode") == "const-width-probes":
            for x in const_width_misses(dumps, profile):
                print(x)
                bad_total += 1
            continue
        if rec.get("info", {}).get("mode") == "envelope":
            from .rounding import envelope_misses
            for x in envelope_misses(dumps, rec["info"], profile):
                print(x)
                bad_total += 1
            continue
        if rec.get("info", {}).get("mode") == "all-dumps-bit-equal":
            for k, d in enumerate(dumps[1:], 1):
                if d.get("parts") != dumps[0].get("parts"):
                    print("%s dump %d: state %s differs from the add-loop state %s" % (profile, k, d.get("parts"), dumps[0].get("parts")))
                    bad_total += 1
            continue
        for k, (d, e) in enumerate(zip(dumps, rec["expected"])):
            if "_panic" in d:
                print(profile, "panic", d["_panic"])
                bad_total += 1
                continue
            bad = rpl.compare(d, e, rel=1e-9, scale=rec.get("info", {}).get("scale", 1.0)) + parts_mismatch(d, e, rec.get("info", {}).get("scale", 1.0))
            for (n, a, x) in bad:
                print("%s dump %d: %s = %r, exact %r" % (profile, k, n, a, x))
            bad_total += len(bad)
    if bad_total:
        print("VIOLATION property=%s replay=%s role=%s" % (rec["property"], path, rec.get("role")))
        return 1
    print("replay: statistics agree with the exact values")
    return 0


def finish(W, prop):
    """Turn World results into driver records, confirming counterexamples natively."""
    out = []
    for r in W.results:
        rec = {k: v for k, v in r.items() if not k.startswith("_")}
        if r["verdict"] == "violated":
            verdict, info = confirm(prop, r)
            if verdict == "violated":
                rec["verdict"] = "violated"
                rec["replay_path"] = info
            elif r.get("unestablished_ok"):
                # an over-approximating analysis could not establish its bound and the real build shows no miss: recorded, not a failure
                rec["verdict"] = "unestablished"
                rec["reason"] = "%s; native runs of the candidates stay inside the envelope" % (r.get("reason"),)
            else:
                rec["verdict"] = "inconclusive"
                rec["reason"] = info
        out.append(rec)
    return out


def run_set(prop, tier, probe, body, budget_s=None):
    """budget_s: wall-clock cap for the whole engine-M plan (never reached on the pinned tree, where every plan but the P-square one
    takes under a minute). A change that makes a function fork without bound must end as 'inconclusive', not as a hung check."""
    t0 = time.time()
    budget_s = budget_s or (600.0 if tier == "quick" else 3600.0)
    try:
        W = World(probe=probe, tier=tier)
    except Exception as e:
        return [{"obligation": "M:mir-dump", "engine": "mirsym", "verdict": "inconclusive", "reason": "MIR dump/parse failed: %r" % (e,)}], {}
    errors = []
    W.m.deadline = t0 + budget_s

    def T(f, *a, **k):
        if time.time() > W.m.deadline:
            errors.append({"obligation": "M:%s%r" % (f.__name__, a[1:] if len(a) > 1 else a), "engine": "mirsym", "verdict": "inconclusive",
                           "reason": "skipped: engine-M plan budget of %.0f s used up" % budget_s, "role": prop})
            return
        try:
            f(W, *a, **k)
        except Unsupported as e:
            errors.append({"obligation": "M:%s%r" % (f.__name__, a[1:] if len(a) > 1 else a), "engine": "mirsym", "verdict": "inconclusive",
                           "reason": "not encodable: %s" % (e,), "role": prop})
        except Exception as e:
            traceback.print_exc()
            errors.append({"obligation": "M:%s%r" % (f.__name__, a[1:] if len(a) > 1 else a), "engine": "mirsym", "verdict": "inconclusive",
                           "reason": "executor error: %r" % (e,), "role": prop})
    body(W, T)
    recs = finish(W, prop) + errors
    meta = {"mir": W.info, "functions_executed": sorted(W.m.used_funcs), "models_used": sorted(W.m.used_models),
            "path_feasibility_queries": W.m.queries, "obligation_queries": W.nqueries,
            "solver_s": round(W.solver_s + W.m.solver_s, 2), "wall_s": round(time.time() - t0, 2)}
    return recs, meta


# ------------------------------------------------------------------------------------------ property plans

def plan_c01(tier, seed):
    def body(W, T):
        for ty in ("Mean", "Variance"):
            T(mo.check_new, "C01", ty)
            T(mo.check_add_step, "C01", ty)
            T(mo.check_basic_accessors, "C01", ty)
            for k in ((1, 2, 3, 4, 5) if tier == "quick" else (1, 2, 3, 4, 5, 6, 7)):
                T(mo.check_def_k, "C01", ty, k)
        T(mo.check_variance_accessors, "C01", "Variance")
        from . import rounding as ro
        for ty, acc, ks in (("Mean", "mean", (1, 2, 3, 4)), ("Variance", "mean", (2, 3)), ("Variance", "population_variance", (2, 3)),
                            ("Variance", "sample_variance", (2, 3)), ("Variance", "variance_of_mean", (2, 3))):
            for k in ks:
                T(ro.check_stream_rounding, "C01", ty, k, acc, timeout_ms=60000 if tier == "quick" else 600000)
    return run_set("C01", tier, False, body)


def plan_c02(tier, seed):
    def body(W, T):
        # orders 8 and 10: the merge-step identity of the top central sums comes back 'unknown' after 10 min (DESIGN.md section 7): not claimed
        for ty in ("Mean", "Variance", "Skewness", "Kurtosis", "Moments4", "M5", "M6"):
            T(mo.check_merge_step, "C02", ty)
        k, chunks = (4, 3) if tier == "quick" else (5, 4)
        for ty in ("Mean", "Variance", "Skewness", "Kurtosis", "Moments4"):
            T(mo.check_def_merge, "C02", ty, k, chunks)
        if tier == "thorough":
            T(mo.check_def_merge, "C02", "M6", 4, 3)
        from . import rounding as ro
        to = 60000 if tier == "quick" else 600000
        for ch in ((1, 1), (2, 1), (1, 2), (1, 1, 1)):
            T(ro.check_stream_rounding, "C02", "Mean", sum(ch), "mean", timeout_ms=to, chunks=ch)
            T(ro.check_stream_rounding, "C02", "Variance", sum(ch), "population_variance", timeout_ms=to, chunks=ch)
            T(ro.check_stream_rounding, "C02", "Variance", sum(ch), "mean", timeout_ms=to, chunks=ch)
    return run_set("C02", tier, True, body)


def plan_c03(tier, seed):
    def body(W, T):
        for ty in ("Skewness", "Kurtosis"):
            T(mo.check_new, "C03", ty)
            T(mo.check_add_step, "C03", ty)
            T(mo.check_basic_accessors, "C03", ty)
            T(mo.check_variance_accessors, "C03", ty)
            T(mo.check_skew_kurt_accessors, "C03", ty)
            for k in ((2, 3, 4) if tier == "quick" else (2, 3, 4, 5)):
                T(mo.check_def_k, "C03", ty, k)
        from . import rounding as ro
        for ty in ("Skewness", "Kurtosis"):
            for acc in ("mean", "population_variance"):
                for k in (2, 3):
                    T(ro.check_stream_rounding, "C03", ty, k, acc, timeout_ms=60000 if tier == "quick" else 300000)
            # third central sum after three adds (kappa <= 1e6): 55 of 59 sign cases are proved, four do not finish even in 10 min, so on the
            # pinned tree this obligation ends 'unestablished' (recorded, not failing); what it is for: when the bound FAILS, the solver's models
            # are run on the real build and skewness() is measured against the property's envelope
            T(ro.check_stream_rounding, "C03", ty, 3, "sum_3", timeout_ms=20000 if tier == "quick" else 120000)
    return run_set("C03", tier, False, body)


def plan_c04(tier, seed):
    def body(W, T):
        for ty in ("Moments4", "M5", "M6", "M8", "M10"):
            T(mo.check_new, "C04", ty)
            T(mo.check_add_step, "C04", ty)
            T(mo.check_basic_accessors, "C04", ty)
            T(mo.check_moments_accessors, "C04", ty)
            for k in ((2, 3) if tier == "quick" else (2, 3, 4)):
                T(mo.check_def_k, "C04", ty, k)
        from . import rounding as ro
        for ty in ("Moments4", "M5", "M10"):
            for k in (2, 3):
                T(ro.check_stream_rounding, "C04", ty, k, "mean", timeout_ms=60000 if tier == "quick" else 600000)
    return run_set("C04", tier, True, body)


def plan_c08(tier, seed):
    def body(W, T):
        T(pr.check_wm_add_step, "C08")
        T(pr.check_wm_merge_step, "C08")
        T(pr.check_wmwe_accessors, "C08")
        for k in ((1, 2, 3) if tier == "quick" else (1, 2, 3, 4)):
            T(pr.check_weighted_def_k, "C08", "WeightedMean", k, with_merge=(k >= 2 and k <= 3))
        for k in ((1, 2, 3) if tier == "quick" else (1, 2, 3, 4)):
            T(pr.check_weighted_def_k, "C08", "WeightedMeanWithError", k, with_merge=(k >= 2 and k <= 3))
    return run_set("C08", tier, False, body)


def plan_c09(tier, seed):
    def body(W, T):
        T(pr.check_cov_add_step, "C09")
        T(pr.check_cov_merge_step, "C09")
        T(pr.check_cov_accessors, "C09")
        for k in ((1, 2, 3) if tier == "quick" else (1, 2, 3, 4)):
            T(pr.check_cov_def_k, "C09", k, with_merge=(k >= 2))
        from . import rounding as ro
        to = 60000 if tier == "quick" else 300000
        for acc in ("mean_x", "mean_y", "population_variance_x", "population_variance_y", "sample_variance_x", "sample_variance_y"):
            for k, ch in ((2, None), (3, None), (3, (2, 1)), (3, (1, 2))):
                T(ro.check_stream_rounding, "C09", "Covariance", k, acc, timeout_ms=to, chunks=ch)
        for acc in ("population_covariance", "sample_covariance"):
            for ch in (None, (1, 1)):
                T(ro.check_stream_rounding, "C09", "Covariance", 2, acc, timeout_ms=to, chunks=ch)
    return run_set("C09", tier, False, body)


def plan_c10(tier, seed):
    def body(W, T):
        for ty in ("Variance", "Skewness", "Kurtosis", "Moments4", "M5", "M6"):
            T(mo.check_variance_accessors, "C10", ty)
        for ty in ("Moments4", "M6"):
            T(mo.check_sample_stats, "C10", ty)
        T(pr.check_wmwe_accessors, "C10")
        from . import rounding as ro
        for ty in ("Skewness", "Kurtosis", "Moments4", "M6"):
            for k in (2, 3):
                T(ro.check_stream_rounding, "C10", ty, k, "sample_variance", timeout_ms=60000 if tier == "quick" else 600000)
    return run_set("C10", tier, True, body)


def plan_c05(tier, seed):
    from . import quant as qu

    def body(W, T):
        T(qu.check_p2_init, "C05")
        T(qu.check_quantile_reads_middle, "C05")
        T(qu.check_p2_step, "C05")
        T(qu.check_reference_invariants, "C05")
    return run_set("C05", tier, False, body, budget_s=3000.0 if tier == "quick" else 7200.0)


def plan_c17(tier, seed):
    def body(W, T):
        for k in ((2, 3) if tier == "quick" else (2, 3, 4)):
            T(pr.check_weighted_hull, "C17", k)
        T(mo.check_merge_hull, "C17", "Mean")
        T(mo.check_merge_hull, "C17", "Variance")
        T(mo.check_sign_steps, "C17", "Variance")
        T(mo.check_sign_steps, "C17", "Moments4")
        from . import hist as hi
        T(hi.check_bin_variance_range, "C17")
    return run_set("C17", tier, False, body)


def plan_c20(tier, seed):
    from . import ingest as ig

    def body(W, T):
        for ty in ig.SINGLE + ig.PAIR:
            T(ig.check_ingestion, "C20", ty, 3 if tier == "quick" else 4)
        T(ig.check_estimate_headline, "C20")
        T(ig.check_concatenate, "C20", 3 if tier == "quick" else 5)
    return run_set("C20", tier, True, body)


def plan_c15(tier, seed):
    from . import quant as qu

    def body(W, T):
        T(qu.check_p2_init, "C15")
        T(qu.check_quantile_reads_middle, "C15")
        T(qu.check_p2_step, "C15")
        T(qu.check_reference_invariants, "C15")
    return run_set("C15", tier, False, body, budget_s=3000.0 if tier == "quick" else 7200.0)


def plan_c13(tier, seed):
    from . import hist as hi

    def body(W, T):
        T(hi.check_view_kernels, "C13")
    return run_set("C13", tier, False, body)


def plan_c12(tier, seed):
    from . import hist as hi

    def body(W, T):
        T(hi.check_const_width, "C12")
        T(hi.check_const_width_accuracy, "C12")
    return run_set("C12", tier, True, body)
