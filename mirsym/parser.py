"""Parser for the textual MIR printed by `rustc -Zunpretty=mir` (nightly 1.97).

Produces Function objects: params, locals (with types), basic blocks of statements and a terminator.
Operands, places and rvalues are parsed into small tuples:

  place   ('local', '_3') | ('deref', place) | ('field', place, idx, type) | ('index', place, local)
          | ('constindex', place, k, n, from_end) | ('downcast', place, variant)
  operand ('copy', place) | ('move', place) | ('const', text)
  rvalue  ('use', operand) | ('binop', name, a, b) | ('unop', name, a) | ('ref', mutability, place)
          | ('cast', operand, type, kind) | ('aggregate', kind, name, [(field, operand)...])
          | ('repeat', operand, count_text) | ('len', place) | ('discriminant', place) | ('rawptr', place)
          | ('unknown', text)
  terminator ('goto', bb) | ('switch', operand, [(value, bb)...], otherwise_bb) | ('return',) | ('unreachable',)
          | ('call', dest_place|None, callee_text, [operands], return_bb|None)
          | ('assert', operand, expected_bool, msg, bb) | ('drop', place, bb) | ('resume',)
"""
import re


class ParseError(Exception):
    pass


class Function:
    def __init__(self, name, params, ret, is_const=False):
        self.name = name
        self.params = params      # list of (local, type)
        self.ret = ret
        self.locals = {}          # local -> type text
        self.blocks = {}          # 'bb0' -> (stmts, terminator)
        self.is_const = is_const
        self.const_value_text = None

    def __repr__(self):
        return "<fn %s>" % self.name


def split_top(s, sep=","):
    """Split on `sep` at nesting depth 0 of ()[]{}<> and outside string literals."""
    out, depth, cur, i, n = [], 0, [], 0, len(s)
    instr = False
    while i < n:
        c = s[i]
        if instr:
            cur.append(c)
            if c == "\\":
                i += 1
                if i < n:
                    cur.append(s[i])
            elif c == '"':
                instr = False
        elif c == '"':
            instr = True
            cur.append(c)
        elif c in "([{":
            depth += 1
            cur.append(c)
        elif c in ")]}":
            depth -= 1
            cur.append(c)
        elif c == "<" and _is_generic_open(s, i):
            depth += 1
            cur.append(c)
        elif c == ">" and depth > 0 and _is_generic_close(s, i):
            depth -= 1
            cur.append(c)
        elif c == sep and depth == 0:
            out.append("".join(cur).strip())
            cur = []
        else:
            cur.append(c)
        i += 1
    last = "".join(cur).strip()
    if last:
        out.append(last)
    return out


def _is_generic_open(s, i):
    # '<' directly followed by a type-ish character and not surrounded by spaces like a comparison
    if i + 1 < len(s) and s[i + 1] in " =":
        return False
    return True


def _is_generic_close(s, i):
    if i > 0 and s[i - 1] in " -=":   # '->' or ' > '
        return False
    return True


def find_matching(s, i):
    """s[i] is an opening bracket; return index of the matching close."""
    pairs = {"(": ")", "[": "]", "{": "}"}
    op = s[i]
    cl = pairs[op]
    depth = 0
    instr = False
    k = i
    while k < len(s):
        c = s[k]
        if instr:
            if c == "\\":
                k += 1
            elif c == '"':
                instr = False
        elif c == '"':
            instr = True
        elif c == op:
            depth += 1
        elif c == cl:
            depth -= 1
            if depth == 0:
                return k
        k += 1
    raise ParseError("unbalanced: " + s)


def parse_place(s):
    s = s.strip()
    # trailing projections: [..] index
    if s.endswith("]") and not s.startswith("["):
        # find the matching '[' of the trailing bracket
        depth = 0
        for k in range(len(s) - 1, -1, -1):
            if s[k] == "]":
                depth += 1
            elif s[k] == "[":
                depth -= 1
                if depth == 0:
                    break
        base, idx = s[:k], s[k + 1:-1].strip()
        m = re.fullmatch(r"(-?)(\d+) of (\d+)", idx)
        if m:
            return ("constindex", parse_place(base), int(m.group(2)), int(m.group(3)), m.group(1) == "-")
        m = re.fullmatch(r"(\d+):(-?)(\d*)", idx)
        if m:
            return ("subslice", parse_place(base), idx)
        return ("index", parse_place(base), idx)
    if s.startswith("(") and s.endswith(")") and find_matching(s, 0) == len(s) - 1:
        inner = s[1:-1].strip()
        if inner.startswith("*"):
            return ("deref", parse_place(inner[1:]))
        # (P as Variant)
        m = re.fullmatch(r"(.*) as ([A-Za-z_][A-Za-z0-9_]*)", inner)
        if m and not re.search(r"\.\d+:", inner[m.start(2) - 4:]):
            # make sure this is a downcast, not a field projection with 'as' inside a type
            try:
                base = parse_place(m.group(1))
                return ("downcast", base, m.group(2))
            except ParseError:
                pass
        # (P.k: T)  -- find the last ".<digits>:" at depth 0
        depth = 0
        pos = None
        k = 0
        while k < len(inner):
            c = inner[k]
            if c in "([{":
                depth += 1
            elif c in ")]}":
                depth -= 1
            elif c == "." and depth == 0:
                m2 = re.match(r"\.(\d+): ", inner[k:])
                if m2:
                    pos = (k, m2)
                    break_at = k
                    # take the first one at depth 0 after the base place: base places are balanced, so first match works
                    break
            k += 1
        if pos:
            k, m2 = pos
            base = inner[:k]
            idx = int(m2.group(1))
            ty = inner[k + m2.end():]
            return ("field", parse_place(base), idx, ty)
        raise ParseError("place? " + s)
    if s.startswith("*"):
        return ("deref", parse_place(s[1:]))
    if re.fullmatch(r"_\d+", s):
        return ("local", s)
    raise ParseError("place? " + s)


def parse_operand(s):
    s = s.strip()
    if s.startswith("copy "):
        return ("copy", parse_place(s[5:]))
    if s.startswith("move "):
        return ("move", parse_place(s[5:]))
    if s.startswith("const "):
        return ("const", s[6:].strip())
    raise ParseError("operand? " + s)


BINOPS = {"Add", "Sub", "Mul", "Div", "Rem", "Lt", "Le", "Gt", "Ge", "Eq", "Ne", "BitAnd", "BitOr", "BitXor", "Shl", "Shr",
          "AddWithOverflow", "SubWithOverflow", "MulWithOverflow", "AddUnchecked", "SubUnchecked", "MulUnchecked", "Offset", "Cmp"}
UNOPS = {"Neg", "Not", "PtrMetadata"}


def _rsplit_call(s):
    """s ends with ')': return (prefix, inner) for the last balanced (...) group."""
    depth = 0
    for k in range(len(s) - 1, -1, -1):
        c = s[k]
        if c == ")":
            depth += 1
        elif c == "(":
            depth -= 1
            if depth == 0:
                return s[:k], s[k + 1:-1]
    raise ParseError("unbalanced " + s)


def parse_rvalue(s):
    s = s.strip()
    if s.startswith("no_retag "):
        s = s[len("no_retag "):]
    m = re.match(r"([A-Za-z]+)\(", s)
    if m and s.endswith(")") and find_matching(s, m.end() - 1) == len(s) - 1:
        name = m.group(1)
        args = split_top(s[m.end():-1])
        if name in BINOPS and len(args) == 2:
            return ("binop", name, parse_operand(args[0]), parse_operand(args[1]))
        if name in UNOPS and len(args) == 1:
            return ("unop", name, parse_operand(args[0]))
        if name == "Len":
            return ("len", parse_place(args[0]))
        if name == "discriminant":
            return ("discriminant", parse_place(args[0]))
    if s.startswith("discriminant("):
        return ("discriminant", parse_place(s[len("discriminant("):-1]))
    if s.startswith("&raw "):
        rest = s[5:]
        rest = rest.split(" ", 1)[1]
        if rest.startswith("(fake) "):
            rest = rest[len("(fake) "):]
        return ("rawptr", parse_place(rest))
    if s.startswith("&mut "):
        return ("ref", "mut", parse_place(s[5:]))
    if s.startswith("&"):
        rest = s[1:].strip()
        if rest.startswith("(fake) "):
            rest = rest[len("(fake) "):]
        if rest.startswith("fake "):
            rest = rest.split(" ", 2)[2] if rest.startswith("fake shallow ") else rest[5:]
        return ("ref", "shared", parse_place(rest))
    # cast:  <operand> as <type> (<Kind>)
    m = re.fullmatch(r"(.*) as (.*) \(([A-Za-z]+(?:\(.*\))?)\)", s)
    if m and (s.startswith("copy ") or s.startswith("move ") or s.startswith("const ")):
        return ("cast", parse_operand(m.group(1)), m.group(2).strip(), m.group(3))
    if s.startswith("copy ") or s.startswith("move ") or s.startswith("const "):
        return ("use", parse_operand(s))
    # array / repeat
    if s.startswith("["):
        inner = s[1:-1]
        parts = split_top(inner, ";")
        if len(parts) == 2:
            return ("repeat", parse_operand(parts[0]), parts[1].strip())
        elems = split_top(inner)
        return ("aggregate", "array", None, [(None, parse_operand(e)) for e in elems])
    # tuple
    if s.startswith("(") and find_matching(s, 0) == len(s) - 1:
        elems = split_top(s[1:-1])
        return ("aggregate", "tuple", None, [(None, parse_operand(e)) for e in elems])
    if s == "()":
        return ("aggregate", "tuple", None, [])
    # struct / enum variant / closure with named fields: Name { f: op, ... }
    if s.endswith("}") and not s.endswith("{}"):
        k = s.rfind(" { ")
        # the field list is the last top-level { ... }; find its start by matching from the end
        depth = 0
        for k in range(len(s) - 1, -1, -1):
            if s[k] == "}":
                depth += 1
            elif s[k] == "{":
                depth -= 1
                if depth == 0:
                    break
        name = s[:k].strip()
        body = s[k + 1:-1].strip()
        if name:
            fields = []
            ok = True
            for part in split_top(body):
                if ":" not in part:
                    ok = False
                    break
                fn, op = part.split(":", 1)
                try:
                    fields.append((fn.strip(), parse_operand(op)))
                except ParseError:
                    ok = False
                    break
            if ok:
                return ("aggregate", "adt", name, fields)
    # tuple-like variant: Path::Variant(op, ...)
    if s.endswith(")") and re.match(r"[A-Za-z_<]", s):
        try:
            name, inner = _rsplit_call(s)
            if name and not name.endswith(" as") and re.search(r"[A-Za-z0-9_>]$", name):
                ops = [parse_operand(e) for e in split_top(inner)] if inner.strip() else []
                return ("aggregate", "adt_tuple", name.strip(), [(None, o) for o in ops])
        except ParseError:
            pass
    # unit-like variant or path constant
    if re.match(r"[A-Za-z_<]", s) and "(" not in s.split("::")[-1]:
        return ("aggregate", "adt_unit", s, [])
    return ("unknown", s)


def parse_terminator(s):
    s = s.strip().rstrip(";")
    if s == "return":
        return ("return",)
    if s == "unreachable":
        return ("unreachable",)
    if s.startswith("resume") or s.startswith("abort") or s.startswith("terminate"):
        return ("resume",)
    m = re.fullmatch(r"goto -> (bb\d+)", s)
    if m:
        return ("goto", m.group(1))
    m = re.fullmatch(r"switchInt\((.*)\) -> \[(.*)\]", s)
    if m:
        targets, otherwise = [], None
        for t in split_top(m.group(2)):
            k, v = t.split(":")
            k, v = k.strip(), v.strip()
            if k == "otherwise":
                otherwise = v
            else:
                targets.append((int(k), v))
        return ("switch", parse_operand(m.group(1)), targets, otherwise)
    m = re.fullmatch(r"assert\((.*)\) -> \[success: (bb\d+), unwind[^\]]*\]", s)
    if m:
        args = split_top(m.group(1))
        cond = args[0]
        expected = True
        if cond.startswith("!"):
            expected = False
            cond = cond[1:]
        return ("assert", parse_operand(cond), expected, args[1] if len(args) > 1 else "", m.group(2))
    m = re.fullmatch(r"drop\((.*)\) -> \[return: (bb\d+), unwind[^\]]*\]", s)
    if m:
        return ("drop", parse_place(m.group(1)), m.group(2))
    m = re.fullmatch(r"falseEdge -> \[real: (bb\d+), imaginary: bb\d+\]", s)
    if m:
        return ("goto", m.group(1))
    m = re.fullmatch(r"falseUnwind -> \[real: (bb\d+), unwind[^\]]*\]", s)
    if m:
        return ("goto", m.group(1))
    # call:  DEST = CALLEE(ARGS) -> [return: bbN, unwind ...]   |   DEST = CALLEE(ARGS) -> unwind continue
    m = re.fullmatch(r"(.*?) = (.*)\) -> (?:\[return: (bb\d+), unwind[^\]]*\]|unwind [a-z]+)", s)
    if m:
        dest = parse_place(m.group(1))
        callee_and_args = m.group(2)
        # find the '(' that opens the argument list: the last '(' at depth 0 scanning from the right
        depth = 0
        pos = None
        for k in range(len(callee_and_args) - 1, -1, -1):
            c = callee_and_args[k]
            if c == ")":
                depth += 1
            elif c == "(":
                if depth == 0:
                    pos = k
                    break
                depth -= 1
        if pos is None:
            raise ParseError("call? " + s)
        callee = callee_and_args[:pos].strip()
        argtext = callee_and_args[pos + 1:]
        args = [parse_operand(a) for a in split_top(argtext)] if argtext.strip() else []
        return ("call", dest, callee, args, m.group(3))
    raise ParseError("terminator? " + s)


FN_RE = re.compile(r"^fn (.*?)\((.*)\) -> (.*) \{$")
CONST_BODY_RE = re.compile(r"^(?:const|static) (.*?): (.*) = \{$")
CONST_SIMPLE_RE = re.compile(r"^const (.*?): (.*?) = const (.*);$")


class _M:
    def __init__(self, a, b):
        self.g = (None, a, b)

    def group(self, k):
        return self.g[k]


def _const_name_split(head):
    """'NAME: TYPE' where NAME may itself contain ': ' inside '<impl at file:l:c: l:c>'"""
    for marker in (r"::promoted\[\d+\]", r"\{constant#\d+\}"):
        mm = re.search(marker + r": ", head)
        if mm:
            return head[:mm.end() - 2], head[mm.end():]
    depth = 0
    for k, c in enumerate(head):
        if c == "<":
            depth += 1
        elif c == ">":
            depth -= 1
        elif c == ":" and depth == 0 and head.startswith(": ", k) and not head.startswith("::", k) and (k == 0 or head[k - 1] != ":"):
            return head[:k], head[k + 2:]
    return None


def _const_body_match(line):
    if not (line.startswith("const ") or line.startswith("static ")) or not line.endswith(" = {"):
        return None
    head = line.split(" ", 1)[1][:-4]
    sp = _const_name_split(head)
    if not sp:
        return None
    return _M(sp[0], sp[1])


def _const_simple_match(line):
    if not line.startswith("const ") or not line.endswith(";") or " = const " not in line:
        return None
    head, val = line[6:-1].rsplit(" = const ", 1)
    sp = _const_name_split(head)
    if not sp:
        return None
    return sp[0], val


def parse_mir(text):
    """Returns (functions: dict name -> Function, consts: dict name -> value text or Function)."""
    funcs = {}
    consts = {}
    lines = text.splitlines()
    i = 0
    n = len(lines)
    while i < n:
        line = lines[i]
        m = FN_RE.match(line)
        mc = _const_body_match(line) if not m else None
        if m or mc:
            if m:
                name = m.group(1)
                params = []
                for p in split_top(m.group(2)):
                    if not p:
                        continue
                    loc, ty = p.split(":", 1)
                    params.append((loc.strip(), ty.strip()))
                f = Function(name, params, m.group(3))
            else:
                f = Function(mc.group(1), [], mc.group(2), is_const=True)
            i += 1
            cur_bb = None
            stmts = []
            while i < n and lines[i] != "}":
                l = lines[i].strip()
                i += 1
                if not l or l.startswith("//") or l.startswith("debug ") or l.startswith("scope ") or l == "}":
                    if l == "}" and cur_bb is not None:
                        # end of a basic block
                        if stmts:
                            term = stmts.pop()
                        else:
                            term = "unreachable;"
                        try:
                            f.blocks[cur_bb] = ([parse_stmt(x) for x in stmts], parse_terminator(term))
                        except ParseError as e:
                            f.blocks[cur_bb] = ("error", str(e))
                        cur_bb = None
                        stmts = []
                    continue
                ml = re.match(r"let (?:mut )?(_\d+): (.*);$", l)
                if ml and cur_bb is None:
                    f.locals[ml.group(1)] = ml.group(2)
                    continue
                mb = re.match(r"(bb\d+)(?: \(cleanup\))?: \{$", l)
                if mb:
                    cur_bb = mb.group(1)
                    stmts = []
                    continue
                if cur_bb is not None:
                    stmts.append(l)
            for loc, ty in f.params:
                f.locals[loc] = ty
            if m:
                # macro-generated impls share their `<impl at file:line>` name: keep every body under a unique key
                key = f.name
                k = 1
                while key in funcs:
                    k += 1
                    key = "%s#%d" % (f.name, k)
                f.key = key
                funcs[key] = f
            else:
                consts[f.name] = f
            i += 1
            continue
        ms = _const_simple_match(line)
        if ms:
            consts[ms[0]] = ms[1]
        i += 1
    return funcs, consts


def parse_stmt(l):
    l = l.rstrip(";")
    if l.startswith(("StorageLive", "StorageDead", "nop", "FakeRead", "PlaceMention", "AscribeUserType", "Retag", "Coverage",
                     "ConstEvalCounter", "BackwardIncompatibleDropHint")):
        return ("nop",)
    if l.startswith("assume("):
        return ("nop",)
    m = re.match(r"(.*?) = (.*)$", l)
    if not m:
        raise ParseError("stmt? " + l)
    # the first " = " at depth 0 separates place and rvalue
    depth = 0
    for k, c in enumerate(l):
        if c in "([{":
            depth += 1
        elif c in ")]}":
            depth -= 1
        elif depth == 0 and l.startswith(" = ", k):
            return ("assign", parse_place(l[:k]), parse_rvalue(l[k + 3:]))
    raise ParseError("stmt? " + l)


if __name__ == "__main__":
    import sys
    fs, cs = parse_mir(open(sys.argv[1]).read())
    bad = 0
    unk = 0
    for f in list(fs.values()) + [c for c in cs.values() if isinstance(c, Function)]:
        for bb, blk in f.blocks.items():
            if blk[0] == "error":
                bad += 1
                print("ERR", f.name, bb, blk[1])
            else:
                for st in blk[0]:
                    if st[0] == "assign" and st[2][0] == "unknown":
                        unk += 1
                        print("UNK", f.name, bb, st[2][1])
    print(len(fs), "functions", len(cs), "consts", bad, "block errors", unk, "unknown rvalues")
