"""Models for callees that are not in the crate's MIR dump (core / num-traits / easy-cast / float-ord).
Each is a few lines; every model that a run used is listed in that run's evidence."""
import re
from fractions import Fraction

import z3

from .interp import (F, NAN, UNIT, Agg, Enum, Ref, Unsupported, b_and, b_not, b_or, clone_value, f_arith, f_cmp, is_sym,
                     ite, to_bool, to_int, to_real)

_fresh = [0]


def fresh_real(prefix):
    _fresh[0] += 1
    return z3.Real("%s!%d" % (prefix, _fresh[0]))


def deref(m, v):
    if isinstance(v, Ref):
        return m.read(v.cell, v.path)
    return v


class Models:
    def __init__(self):
        self.table = []

    def add(self, pattern):
        def deco(fn):
            self.table.append((re.compile(pattern), fn))
            return fn
        return deco

    def lookup(self, callee):
        for pat, fn in self.table:
            if pat.fullmatch(callee):
                return fn
        return None


M = Models()

MAX_EXACT = 1 << 53


@M.add(r"<(u64|i64|usize|u32|i32) as ToPrimitive>::to_f64")
def to_f64(m, st, fr, callee, args):
    """exact for |n| <= 2^53 (the stated bound on counts); returns Some(n as real)"""
    n = deref(m, args[0])
    if is_sym(n) and n.sort() == z3.RealSort():
        return Enum("Some", [F(n)], "Option")
    return Enum("Some", [F(Fraction(n) if not is_sym(n) else z3.ToReal(n))], "Option")


@M.add(r"Option::<.*>::unwrap")
def option_unwrap(m, st, fr, callee, args):
    v = args[0]
    if isinstance(v, Enum):
        if v.variant == "Some":
            return v.fields[0]
        return ("panic", "called Option::unwrap() on None")
    raise Unsupported("unwrap of symbolic option")


@M.add(r"core::ops::RangeInclusive::<(usize|u64|f64)>::new")
def range_incl_new(m, st, fr, callee, args):
    return Agg([args[0], args[1], False], "adt", "RangeInclusive")


@M.add(r"<core::ops::RangeInclusive<usize> as IntoIterator>::into_iter|<core::ops::Range<usize> as IntoIterator>::into_iter")
def range_into_iter(m, st, fr, callee, args):
    return args[0]


@M.add(r"<core::ops::RangeInclusive<usize> as Iterator>::next")
def range_incl_next(m, st, fr, callee, args):
    r = deref(m, args[0])
    s, e, ex = r.fields
    if is_sym(s) or is_sym(e):
        raise Unsupported("symbolic loop bound")
    if ex or s > e:
        return Enum("None", [], "Option")
    if s == e:
        r.fields[2] = True
    else:
        r.fields[0] = s + 1
    return Enum("Some", [s], "Option")


@M.add(r"<core::ops::Range<usize> as Iterator>::next")
def range_next(m, st, fr, callee, args):
    r = deref(m, args[0])
    s, e = r.fields[0], r.fields[1]
    if is_sym(s) or is_sym(e):
        raise Unsupported("symbolic loop bound")
    if s >= e:
        return Enum("None", [], "Option")
    r.fields[0] = s + 1
    return Enum("Some", [s], "Option")


@M.add(r"core::ops::RangeInclusive::<f64>::contains::<f64>")
def range_contains(m, st, fr, callee, args):
    r = deref(m, args[0])
    x = deref(m, args[1])
    return b_and(f_cmp("Le", r.fields[0], x), f_cmp("Le", x, r.fields[1]))


@M.add(r"core::ops::Range::<f64>::contains::<f64>")
def range_halfopen_contains(m, st, fr, callee, args):
    r = deref(m, args[0])
    x = deref(m, args[1])
    return b_and(f_cmp("Le", r.fields[0], x), f_cmp("Lt", x, r.fields[1]))


@M.add(r"core::ops::RangeFrom::<f64>::contains::<f64>")
def range_from_contains(m, st, fr, callee, args):
    return f_cmp("Le", deref(m, args[0]).fields[0], deref(m, args[1]))


@M.add(r"core::ops::RangeTo::<f64>::contains::<f64>")
def range_to_contains(m, st, fr, callee, args):
    return f_cmp("Lt", deref(m, args[1]), deref(m, args[0]).fields[0])


@M.add(r"core::ops::RangeToInclusive::<f64>::contains::<f64>")
def range_to_incl_contains(m, st, fr, callee, args):
    return f_cmp("Le", deref(m, args[1]), deref(m, args[0]).fields[0])


@M.add(r"num_traits::pow::<f64>|num_traits::pow::pow::<f64>")
def nt_pow(m, st, fr, callee, args):
    """repeated multiplication (the real implementation squares and multiplies: the same real number)"""
    base, e = args
    if is_sym(e):
        raise Unsupported("symbolic exponent")
    out = F(Fraction(1))
    for _ in range(e):
        out = f_arith("Mul", out, base)
    return out


def _sqrt(x):
    if not is_sym(x.r):
        if x.r < 0:
            return F(Fraction(0), True)
        # exact rational square root when it exists, else a constrained fresh symbol
        import math
        n, d = x.r.numerator, x.r.denominator
        rn, rd = math.isqrt(n), math.isqrt(d)
        if rn * rn == n and rd * rd == d:
            return F(Fraction(rn, rd), x.bad)
    y = fresh_real("sqrt")
    xr = to_real(x.r)
    return ("constrained", F(y, b_or(x.bad, xr < 0)), z3.Implies(xr >= 0, z3.And(y >= 0, y * y == xr)))


@M.add(r"<f64 as num_traits::Float>::sqrt|f64::<impl f64>::sqrt|std::f64::<impl f64>::sqrt")
def f_sqrt(m, st, fr, callee, args):
    """y >= 0 and y*y = x for x >= 0; undefined (NaN) for x < 0"""
    r = _sqrt(args[0])
    if isinstance(r, tuple):
        st.pc.append(r[2])
        return r[1]
    return r


@M.add(r"<f64 as num_traits::Float>::powf|f64::<impl f64>::powf")
def f_powf(m, st, fr, callee, args):
    """powf(x, 1.5): y >= 0 and y*y = x^3 for x >= 0, undefined for x < 0; powf(x, 0.5) = sqrt; integer exponents = products"""
    x, e = args
    if is_sym(e.r):
        raise Unsupported("symbolic powf exponent")
    if e.r == Fraction(3, 2):
        cube = f_arith("Mul", f_arith("Mul", x, x), x)
        xr = to_real(x.r)
        if not is_sym(x.r):
            r = _sqrt(cube)
            if isinstance(r, tuple):
                st.pc.append(r[2])
                return r[1]
            return r
        y = fresh_real("pow15")
        st.pc.append(z3.Implies(xr >= 0, z3.And(y >= 0, y * y == to_real(cube.r))))
        return F(y, b_or(x.bad, xr < 0))
    if e.r == Fraction(1, 2):
        return f_sqrt(m, st, fr, callee, [x])
    if e.r.denominator == 1 and 0 <= e.r <= 16:
        return nt_pow(m, st, fr, callee, [x, int(e.r)])
    raise Unsupported("powf exponent %s" % e.r)


@M.add(r"<f64 as num_traits::Float>::signum|f64::<impl f64>::signum")
def f_signum(m, st, fr, callee, args):
    x = args[0]
    if not is_sym(x.r):
        return F(Fraction(1 if x.r >= 0 else -1), x.bad)
    xr = to_real(x.r)
    # fork on the sign so that downstream terms are free of If-terms (the executor keeps only feasible sides)
    return ("fork", [(xr >= 0, F(Fraction(1), x.bad)), (xr < 0, F(Fraction(-1), x.bad))])


@M.add(r"f64::<impl f64>::abs|<f64 as num_traits::Float>::abs")
def f_abs(m, st, fr, callee, args):
    x = args[0]
    if not is_sym(x.r):
        return F(abs(x.r), x.bad)
    return F(ite(to_real(x.r) >= 0, to_real(x.r), -to_real(x.r)), x.bad)


@M.add(r"f64::<impl f64>::powi|<f64 as num_traits::Float>::powi")
def f_powi(m, st, fr, callee, args):
    base, e = args
    if is_sym(e):
        raise Unsupported("symbolic exponent")
    if e < 0:
        raise Unsupported("negative integer power")
    out = F(Fraction(1))
    for _ in range(e):
        out = f_arith("Mul", out, base)
    return out


@M.add(r"f64::<impl f64>::mul_add|<f64 as num_traits::Float>::mul_add")
def f_mul_add(m, st, fr, callee, args):
    """a*b + c (fused: one rounding; over the reals the same number)"""
    return f_arith("Add", f_arith("Mul", args[0], args[1]), args[2])


@M.add(r"f64::<impl f64>::recip|<f64 as num_traits::Float>::recip")
def f_recip(m, st, fr, callee, args):
    return f_arith("Div", F(Fraction(1)), args[0])


@M.add(r"f64::<impl f64>::is_finite|<f64 as num_traits::Float>::is_finite")
def f_is_finite(m, st, fr, callee, args):
    # the real-number interpretation has no overflow: finite <=> defined (an infinite *constant* is not finite)
    if args[0].inf:
        return False
    return b_not(args[0].bad)


@M.add(r"f64::<impl f64>::is_infinite|<f64 as num_traits::Float>::is_infinite")
def f_is_infinite(m, st, fr, callee, args):
    return bool(args[0].inf)


@M.add(r"f64::<impl f64>::is_nan")
def f_is_nan(m, st, fr, callee, args):
    return args[0].bad


def _minmax(a, b, is_max):
    # IEEE maxNum/minNum: a NaN operand is ignored
    for (p, q) in ((a, b), (b, a)):
        if p.inf:
            if (p.inf > 0) == is_max:
                return p                      # max(+inf, x) = +inf, min(-inf, x) = -inf
            if q.inf or q.bad is False:
                return q                      # min(+inf, x) = x for a non-NaN x
            raise Unsupported("min/max of an infinite constant and a possibly-NaN value")
    if not (is_sym(a.r) or is_sym(b.r) or is_sym(a.bad) or is_sym(b.bad)):
        if a.bad:
            return b
        if b.bad:
            return a
        return a if ((a.r >= b.r) == is_max) else b
    ar, br = to_real(a.r), to_real(b.r)
    pick_a = (ar >= br) if is_max else (ar <= br)
    r = ite(to_bool(a.bad), br, ite(to_bool(b.bad), ar, ite(pick_a, ar, br)))
    return F(r, b_and(a.bad, b.bad))


@M.add(r"f64::<impl f64>::max|<f64 as num_traits::Float>::max")
def f_max(m, st, fr, callee, args):
    return _minmax(args[0], args[1], True)


@M.add(r"f64::<impl f64>::min|<f64 as num_traits::Float>::min")
def f_min(m, st, fr, callee, args):
    return _minmax(args[0], args[1], False)


@M.add(r"<f64 as num_traits::Float>::ceil|f64::<impl f64>::ceil")
def f_ceil(m, st, fr, callee, args):
    x = args[0]
    if not is_sym(x.r):
        import math
        return F(Fraction(math.ceil(x.r)), x.bad)
    xr = to_real(x.r)
    fl = z3.ToReal(z3.ToInt(xr))
    return F(ite(fl == xr, xr, fl + 1), x.bad)


@M.add(r"core::cmp::min::<usize>")
def cmp_min(m, st, fr, callee, args):
    a, b = args
    if not (is_sym(a) or is_sym(b)):
        return min(a, b)
    return ite(to_int(a) <= to_int(b), to_int(a), to_int(b))


@M.add(r"core::num::<impl i64>::abs")
def i_abs(m, st, fr, callee, args):
    a = args[0]
    if not is_sym(a):
        return abs(a)
    return ite(a >= 0, a, -a)


@M.add(r"<(usize|u64|i64) as Conv<(usize|u64|i64)>>::conv")
def ec_conv_int(m, st, fr, callee, args):
    """easy_cast integer conversion: identity when in range, panic otherwise"""
    mm = re.match(r"<(\w+) as Conv<(\w+)>>", callee)
    dst = mm.group(1)
    v = args[0]
    if dst in ("usize", "u64"):
        if not is_sym(v):
            return v if v >= 0 else ("panic", "easy_cast: negative value to unsigned")
        return ("fork", [(v >= 0, v), (v < 0, ("panic", "easy_cast: negative value to unsigned"))])
    return v


@M.add(r"<f64 as Conv<(usize|u64|i64)>>::conv")
def ec_conv_to_f64(m, st, fr, callee, args):
    v = args[0]
    return F(Fraction(v) if not is_sym(v) else z3.ToReal(v))


@M.add(r"<(usize|i64|u64) as ConvFloat<f64>>::conv_nearest")
def ec_conv_nearest(m, st, fr, callee, args):
    """round to nearest integer (half away from zero); exact on integral arguments"""
    x = args[0]
    if not is_sym(x.r):
        import math
        r = x.r
        n = math.floor(r + Fraction(1, 2)) if r >= 0 else -math.floor(-r + Fraction(1, 2))
        if "usize" in callee.split(" as ")[0] and n < 0:
            return ("panic", "easy_cast: negative value to usize")
        return n
    xr = to_real(x.r)
    xs = z3.simplify(xr)
    if z3.is_app_of(xs, z3.Z3_OP_ITE) and z3.is_rational_value(xs.arg(1)) and z3.is_rational_value(xs.arg(2)):
        # If(c, a, b) with numeral branches (e.g. the result of signum): round the branches, keep the sort real
        import math
        def rnd(v):
            r = Fraction(v.numerator_as_long(), v.denominator_as_long())
            return math.floor(r + Fraction(1, 2)) if r >= 0 else -math.floor(-r + Fraction(1, 2))
        a, b = rnd(xs.arg(1)), rnd(xs.arg(2))
        if "usize" in callee.split(" as ")[0] and (a < 0 or b < 0):
            raise Unsupported("conv_nearest to usize of a possibly negative value")
        return z3.If(xs.arg(0), z3.RealVal(a), z3.RealVal(b))
    n = ite(xr >= 0, z3.ToInt(xr + z3.RealVal("1/2")), -z3.ToInt(-xr + z3.RealVal("1/2")))
    if "usize" in callee.split(" as ")[0]:
        return ("fork", [(xr > z3.RealVal("-1/2"), n), (xr <= z3.RealVal("-1/2"), ("panic", "easy_cast: negative value to usize"))])
    return n


@M.add(r"sort::<f64>|float_ord::sort::<f64>")
def fo_sort(m, st, fr, callee, args):
    """float_ord::sort on a mutable slice: compare-exchange network over ITE terms (NaN-free inputs).
    The real sort is covered bit-precisely by engine K (C07/C15)."""
    ref = args[0]
    if not isinstance(ref, Ref):
        raise Unsupported("sort argument")
    arr = m.read(ref.cell, ref.path)
    if isinstance(arr, tuple) and arr[0] == "slice":
        base, lo, hi = arr[1], arr[2], arr[3]
        if is_sym(lo) or is_sym(hi):
            raise Unsupported("sort of a symbolic-length slice")
        target = m.read(base.cell, base.path)
        idxs = list(range(lo, hi))
    else:
        target = arr
        idxs = list(range(len(arr.fields)))
    vals = [target.fields[j] for j in idxs]
    n = len(vals)
    for a in range(n):
        for b in range(n - 1 - a):
            x, y = vals[b], vals[b + 1]
            if not (is_sym(x.r) or is_sym(y.r)):
                if x.r > y.r:
                    vals[b], vals[b + 1] = y, x
                continue
            c = to_real(x.r) <= to_real(y.r)
            lo_v = F(ite(c, to_real(x.r), to_real(y.r)), b_or(x.bad, y.bad))
            hi_v = F(ite(c, to_real(y.r), to_real(x.r)), b_or(x.bad, y.bad))
            vals[b], vals[b + 1] = lo_v, hi_v
    for j, v in zip(idxs, vals):
        target.fields[j] = v
    return UNIT


@M.add(r"<\[f64(; \d+)?\] as IndexMut<(core::ops::)?RangeTo<usize>>>::index_mut|core::array::<impl IndexMut<(core::ops::)?RangeTo<usize>> for \[f64; \d+\]>::index_mut")
def slice_index_mut_to(m, st, fr, callee, args):
    ref, rng = args
    hi = rng.fields[0]
    cell = type(ref.cell)(("slice", ref, 0, hi))
    return Ref(cell, ())


@M.add(r"<.* as Clone>::clone")
def generic_clone(m, st, fr, callee, args):
    return clone_value(deref(m, args[0]))


@M.add(r"core::panicking::panic|panic|core::panicking::panic_fmt|core::panicking::assert_failed::<.*>|assert_failed::<.*>")
def panics(m, st, fr, callee, args):
    msg = ""
    if args and isinstance(args[0], tuple) and args[0][0] == "str":
        msg = args[0][1]
    return ("panic", "panic: " + msg)


@M.add(r"Arguments::<'_>::from_str|Arguments::<'_>::new_const::<\d+>|core::fmt::Arguments::<'_>::new_const::<\d+>")
def fmt_args(m, st, fr, callee, args):
    return Agg([], "adt", "Arguments")


class ListIter:
    """a concrete-length iterator over given items (items may be symbolic values or references to cells)"""

    def __init__(self, items):
        self.items = list(items)
        self.pos = 0


@M.add(r"<T as IntoIterator>::into_iter")
def generic_into_iter(m, st, fr, callee, args):
    if isinstance(args[0], ListIter):
        return args[0]
    raise Unsupported("into_iter of %r" % (args[0],))


@M.add(r"<<T as IntoIterator>::IntoIter as Iterator>::next")
def generic_next(m, st, fr, callee, args):
    it = deref(m, args[0])
    if not isinstance(it, ListIter):
        raise Unsupported("next of %r" % (it,))
    if it.pos >= len(it.items):
        return Enum("None", [], "Option")
    v = it.items[it.pos]
    it.pos += 1
    return Enum("Some", [v], "Option")


@M.add(r"<<T as IntoIterator>::IntoIter as Iterator>::collect::<([A-Za-z0-9_:]+)>|<T as Iterator>::collect::<([A-Za-z0-9_:]+)>")
def generic_collect(m, st, fr, callee, args):
    """iterator.collect::<X>() = <X as FromIterator<Item>>::from_iter(iterator): run X's from_iter from the MIR on the iterator"""
    it = args[0]
    if not isinstance(it, ListIter):
        raise Unsupported("collect of %r" % (it,))
    mm = re.search(r"collect::<([A-Za-z0-9_:]+)>", callee)
    ty = mm.group(1).rsplit("::", 1)[-1]
    want_ref = any(isinstance(x, Ref) for x in it.items[it.pos:])
    cands = []
    for name, f in m.funcs.items():
        if f.name.endswith("::from_iter") and m._base_type(f.ret) == ty:
            is_ref = any(re.search(r"Option<&", t) for t in f.locals.values())
            if is_ref == want_ref or it.pos >= len(it.items):
                cands.append(f)
    if not cands:
        raise Unsupported("no from_iter for %s" % ty)
    base = len(st.pc)
    sub = m.run(m.start(cands[0], [it], list(st.pc)))
    if len(sub) == 1 and sub[0].kind == "return":
        return sub[0].value
    alts = []
    for o in sub:
        extra = [to_bool(c) for c in o.pc[base:] if c is not True]
        cond = z3.And(*extra) if extra else z3.BoolVal(True)
        alts.append((cond, o.value if o.kind == "return" else ("panic", "collect: %s" % o.msg)))
    return ("fork", alts)


@M.add(r"slice::<impl \[(f64|u64)\]>::iter_mut|slice::<impl \[(f64|u64)\]>::iter")
def slice_iter(m, st, fr, callee, args):
    """iterator over references to the elements of an array / slice reference"""
    ref = args[0]
    if not isinstance(ref, Ref):
        raise Unsupported("iter on %r" % (ref,))
    target = m.read(ref.cell, ref.path)
    if isinstance(target, tuple) and target and target[0] == "slice":
        base, lo, hi = target[1], target[2], target[3]
        return ListIter([Ref(base.cell, base.path + (j,)) for j in range(lo, hi)])
    return ListIter([Ref(ref.cell, ref.path + (j,)) for j in range(len(target.fields))])


class EnumIter(ListIter):
    pass


@M.add(r"<core::slice::IterMut<'_, (f64|u64)> as Iterator>::enumerate|<core::slice::Iter<'_, (f64|u64)> as Iterator>::enumerate|<<T as IntoIterator>::IntoIter as Iterator>::enumerate")
def iter_enumerate(m, st, fr, callee, args):
    it = args[0]
    if not isinstance(it, ListIter):
        raise Unsupported("enumerate of %r" % (it,))
    out = EnumIter([Agg([j, x], "tuple") for j, x in enumerate(it.items[it.pos:])])
    return out


@M.add(r"<Enumerate<.*> as IntoIterator>::into_iter")
def enum_into_iter(m, st, fr, callee, args):
    return args[0]


@M.add(r"<Enumerate<.*> as Iterator>::next")
def enum_next(m, st, fr, callee, args):
    return generic_next(m, st, fr, callee, args)


@M.add(r"<core::slice::Iter<'_, u64> as Iterator>::sum::<u64>")
def iter_sum(m, st, fr, callee, args):
    it = args[0]
    total = 0
    for x in it.items[it.pos:]:
        v = deref(m, x)
        total = total + v
    return total


@M.add(r"<core::slice::IterMut<'_, (f64|u64)> as IntoIterator>::into_iter|<core::slice::Iter<'_, (f64|u64)> as IntoIterator>::into_iter")
def sliceiter_into_iter(m, st, fr, callee, args):
    return args[0]


@M.add(r"<core::slice::IterMut<'_, (f64|u64)> as Iterator>::next|<core::slice::Iter<'_, (f64|u64)> as Iterator>::next")
def sliceiter_next(m, st, fr, callee, args):
    return generic_next(m, st, fr, callee, args)
