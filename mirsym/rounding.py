"""Rounding-error obligations for short streams: the accumulated floating-point error of a statistic after k adds from
new() (optionally collected in chunks and merged) stays inside the property's envelope C*n*kappa*u*scale, for ALL finite
inputs up to a stated conditioning -- decided by the solver on the rigorous error bound that the interpreter's split
rounding mode propagates through the MIR of the real update code (standard model of floating-point arithmetic, u = 2^-53,
no underflow/overflow).

    |computed - exact| <= u*e1 + u^2*R           (e1: first-order bound, R: all higher-order terms)

Proved per sign case (every |t| in the bounds is resolved by fixing the sign of t) and per position of max|x_i|:
    (1)  e1 <= (C-1)*k*scale'        scale' = kappa * natural scale, written without square roots where possible
    (2)  R  <= c2 * X^d              crude magnitude bound of the higher-order part
    (3)  u * c2 * K^m <= k           numeric; K = conditioning bound of the obligation (1e12; 1e6 / 1e4 for third / fourth sums)
(1)-(3) give u*e1 + u^2*R <= C*k*u*scale'.  The bounds are homogeneous (checked by the solver per case), so max|x| (and
max|y| for covariances) is normalised to 1.

kinds:  mean  scale' = X                                   (kappa >= 1, so this is stronger than required)
        var   scale' = var + X*sigma            = kappa*var
        cov   scale' = sx*sy + X*sy + Y*sx      <= 2*kappa*sx*sy with kappa = 1 + max(X/sx, Y/sy)   (A halved accordingly)
        m3    the third central sum M3 read from the state: scale' = (1 + X/sigma) * sum|x_i - mean|^3, kappa <= 1e6
        m4    the fourth central sum:               scale' = (1 + X/sigma) * sum (x_i - mean)^4,    kappa <= 1e4

The analysis over-approximates: a failed proof is NOT a counterexample. The solver's model (a direction in which the bound
is large) and a few fixed ill-conditioned probes are then run on the real build and the *accessor the property names* is
compared with the exact statistic; only a measured error above the property's own envelope is reported. Without such a
witness the obligation is recorded as 'unestablished' (does not fail the run): the property does not promise that this
particular analysis succeeds.
"""
import json
import math
import os
import time
from fractions import Fraction

import z3

from . import interp as I
from .interp import F, Unsupported, to_real
from .lib import Result

C_OF = {"mean": 8, "population_variance": 16, "sample_variance": 16, "variance_of_mean": 16,
        "population_covariance": 16, "sample_covariance": 16, "sum_3": 64, "sum_4": 128}
for _c in ("x", "y"):      # Covariance reports the same statistics per coordinate
    for _a in ("mean", "population_variance", "sample_variance"):
        C_OF["%s_%s" % (_a, _c)] = C_OF[_a]
KAPPA_OF = {"mean": 10 ** 12, "var": 10 ** 12, "cov": 10 ** 12, "m3": 10 ** 6, "m4": 10 ** 4}
KPOW = {"mean": 0, "var": 1, "cov": 1, "m3": 2, "m4": 3}      # (3): u*c2*K^m <= k
NATIVE_ACCESSOR = {"sum_3": "skewness", "sum_4": "kurtosis"}   # what the real build is asked when the proof fails


def base_stat(accessor):
    """(statistic, coordinate or None)"""
    if accessor.endswith(("_x", "_y")) and accessor[:-2] in ("mean", "population_variance", "sample_variance"):
        return accessor[:-2], accessor[-1]
    return accessor, None


def kind_of(accessor):
    b = base_stat(accessor)[0]
    if b == "mean":
        return "mean"
    if b in ("population_covariance", "sample_covariance"):
        return "cov"
    if b == "sum_3":
        return "m3"
    if b == "sum_4":
        return "m4"
    return "var"


def stream_bounds(W, ty, k, accessor, chunks=None):
    """chunks: None = one add-only stream; (k1, k2, ...) = contiguous chunks, each collected on its own, merged left to right.
    -> xs, ys (second coordinate for covariances, else []), exact value, e1, R"""
    from .interp import Cell, Ref
    xs = [z3.Real("x%d" % j) for j in range(k)]
    coord = base_stat(accessor)[1]
    kind = kind_of(accessor)
    pair = coord is not None or kind == "cov"
    os_ = [z3.Real("o%d" % j) for j in range(k)] if pair else []
    other = {x.get_id(): o for x, o in zip(xs, os_)}
    I.ROUND["on"] = "split"
    try:
        def collect(part):
            v = W.call_pure(ty, "new", [])
            for x in part:
                if not pair:
                    args = [F(x)]
                elif coord == "y":
                    args = [F(other[x.get_id()]), F(x)]
                else:
                    args = [F(x), F(other[x.get_id()])]
                res = W.method(ty, "add", v, args, pc=[])
                rets = [(o, a) for (o, a) in res if o.kind == "return"]
                if len(res) != 1 or len(rets) != 1:
                    raise Unsupported("rounding analysis: %s::add forks on the data" % ty)
                v = rets[0][1]
            return v
        if not chunks:
            v = collect(xs)
        else:
            assert sum(chunks) == k
            pos = 0
            v = None
            for c in chunks:
                part = collect(xs[pos:pos + c])
                pos += c
                if v is None:
                    v = part
                    continue
                ca, cb = Cell(v), Cell(part)
                outs = W.run(ty, "merge", [Ref(ca, ()), Ref(cb, ())], pc=[], roots={"a": ca, "b": cb})
                rets = [o for o in outs if o.kind == "return"]
                if len(outs) != 1 or len(rets) != 1:
                    raise Unsupported("rounding analysis: %s::merge forks on the data" % ty)
                v = rets[0].state.roots["a"].v
        if kind in ("m3", "m4"):
            from .moments import get
            val = get(W, ty, v)[2][3 if kind == "m3" else 4]
        else:
            outs = [o for o, _ in W.method(ty, accessor, v, [], pc=[]) if o.kind == "return"]
            if len(outs) != 1:
                raise Unsupported("rounding analysis: %s::%s forks" % (ty, accessor))
            val = outs[0].value
    finally:
        I.ROUND["on"] = False
    ys = os_ if kind == "cov" else []
    if val.err is None:
        z = z3.RealVal(0)
        return xs, ys, to_real(val.r), z, z
    return xs, ys, to_real(val.r), to_real(val.err[0]), to_real(val.err[1])


def _sign_conditions(exprs, extra=()):
    conds = {}

    def walk(e, seen):
        if e.get_id() in seen:
            return
        seen.add(e.get_id())
        if z3.is_app(e) and e.decl().kind() == z3.Z3_OP_ITE:
            conds[e.arg(0).get_id()] = e.arg(0)
        for ch in e.children():
            walk(ch, seen)
    seen = set()
    for e in exprs:
        walk(e, seen)
    groups = {}
    for c in list(conds.values()) + list(extra):
        groups.setdefault(str(z3.simplify(c)), []).append(c)
    free, fixed = [], []
    for key, cs in groups.items():
        if key == "True":
            fixed += [(c, True) for c in cs]
        elif key == "False":
            fixed += [(c, False) for c in cs]
        else:
            s_ = z3.Solver()
            s_.set("timeout", 5000)
            s_.add(z3.Not(cs[0]))
            if s_.check() == z3.unsat:
                fixed += [(c, True) for c in cs]
            else:
                free.append(cs)
    return free, fixed


def _box(vs, j, sgn):
    X = sgn * vs[j]
    return X, [X >= v for v in vs] + [X >= -v for v in vs] + [X > 0]


class _Budget(Exception):
    pass


def _cases(xs, ys, free, deadline=None, max_cases=2000):
    """feasible (sign pattern, argmax of |x|, argmax of |y| or None); infeasible sign combinations are pruned while the
    pattern is built ('unknown' keeps a branch, so nothing feasible is lost)"""
    out = []
    s_ = z3.Solver()
    s_.set("timeout", 5000)
    choices = lambda vs: [(j, sgn) for j in range(len(vs)) for sgn in (1, -1)]

    def rec(prefix):
        if (deadline is not None and time.time() > deadline) or len(out) > max_cases:
            raise _Budget()
        i = len(prefix)
        if i == len(free):
            for (j, sgn) in choices(xs):
                s_.push()
                s_.add(*_box(xs, j, sgn)[1])
                if s_.check() != z3.unsat:
                    if ys:
                        for (jy, sgy) in choices(ys):
                            s_.push()
                            s_.add(*_box(ys, jy, sgy)[1])
                            if s_.check() != z3.unsat:
                                out.append((tuple(prefix), (j, sgn), (jy, sgy)))
                            s_.pop()
                    else:
                        out.append((tuple(prefix), (j, sgn), None))
                s_.pop()
            return
        for sg in (True, False):
            s_.push()
            s_.add(free[i][0] if sg else z3.Not(free[i][0]))
            if s_.check() != z3.unsat:
                rec(prefix + [sg])
            s_.pop()
    try:
        rec([])
    except _Budget:
        return out, False
    return out, True


def _homogeneous(expr, groups, degs):
    """expr(c_i * group_i) == prod c_i^deg_i * expr, as an identity in the reals (solver-checked)"""
    sub = []
    factor = z3.RealVal(1)
    for gi, (vs, d) in enumerate(zip(groups, degs)):
        cv = z3.Real("c_scale%d" % gi)
        sub += [(v, cv * v) for v in vs]
        for _ in range(d):
            factor = factor * cv
    hs = z3.Solver()
    hs.set("timeout", 20000)
    hs.add(z3.substitute(expr, *sub) != factor * expr)
    return hs.check() == z3.unsat


def _decide_case(xs, ys, r, e1, R, free, fixed, case, kind, k, C, c2, timeout_ms, dev):
    """-> (verdict, model values or None, secs, normalised)"""
    signs, (j, sgn), ay = case
    sub = list(fixed)
    assum = []
    for cs, sg in zip(free, signs):
        sub += [(c, sg) for c in cs]
        assum.append(cs[0] if sg else z3.Not(cs[0]))
    subz = [(c, z3.BoolVal(sg)) for c, sg in sub]
    e1c = z3.simplify(z3.substitute(e1, *subz))
    Rc = z3.simplify(z3.substitute(R, *subz))
    t0 = time.time()
    X, box = _box(xs, j, sgn)
    K = KAPPA_OF[kind]
    A = (C - 1) * k
    n = len(xs)
    mean = sum(xs[1:], xs[0]) / n
    var = sum(((x - mean) * (x - mean) for x in xs[1:]), (xs[0] - mean) * (xs[0] - mean)) / n
    one = [(xs[j], z3.RealVal(sgn))]
    queries = []
    if kind == "mean":
        hom = all(_homogeneous(e, [xs], [1]) for e in (e1c, Rc))
        queries.append(("first-order", box + assum + [e1c > A * X]))
        queries.append(("higher-order", box + assum + [Rc > c2 * X]))
    elif kind == "var":
        hom = all(_homogeneous(e, [xs], [2]) for e in (e1c, Rc, r))
        D = e1c - A * r
        queries.append(("first-order", box + assum + [r > 0, X * X <= K * K * r, D > 0, D * D > A * A * X * X * r]))
        queries.append(("higher-order", box + assum + [Rc > c2 * X * X]))
    elif kind == "cov":
        jy, sgy = ay
        Y, boxy = _box(ys, jy, sgy)
        box = box + boxy
        one = one + [(ys[jy], z3.RealVal(sgy))]
        hom = all(_homogeneous(e, [xs, ys], [1, 1]) for e in (e1c, Rc, r))
        my = sum(ys[1:], ys[0]) / n
        vary = sum(((y - my) * (y - my) for y in ys[1:]), (ys[0] - my) * (ys[0] - my)) / n
        sx, sy = z3.Reals("sx sy")
        A2 = z3.RealVal(A) / 2
        queries.append(("first-order", box + assum + [sx > 0, sy > 0, sx * sx == var, sy * sy == vary, X <= K * sx, Y <= K * sy,
                                                      e1c > A2 * (sx * sy + X * sy + Y * sx)]))
        queries.append(("higher-order", box + assum + [Rc > c2 * X * Y]))
    else:
        p = 3 if kind == "m3" else 4
        hom = all(_homogeneous(e, [xs], [p]) for e in (e1c, Rc, r))
        s = z3.Real("s")
        Sp = None
        for x in xs:
            dc = z3.simplify(z3.substitute(dev[x.get_id()], *subz))      # |x - mean| with the sign fixed by this case
            t = dc * dc * dc if p == 3 else dc * dc * dc * dc
            Sp = t if Sp is None else Sp + t
        # e1*s <= A*(s + X)*Sp  <=>  s*(e1 - A*Sp) <= A*X*Sp; the square root s = sqrt(var) is eliminated by squaring
        D = e1c - A * Sp
        queries.append(("first-order", box + assum + [var > 0, X * X <= K * K * var, D > 0, var * D * D > A * A * X * X * Sp * Sp]))
        queries.append(("higher-order", box + assum + [Rc > c2 * (X * X * X if p == 3 else X * X * X * X)]))
    worst = "unsat"
    allv = list(xs) + list(ys)
    for name, cons in queries:
        if hom:
            cons = [z3.substitute(c, *one) for c in cons]
        s_ = z3.Solver()
        s_.set("timeout", timeout_ms)
        s_.add(*cons)
        rr = s_.check()
        if rr == z3.sat:
            m = s_.model()
            vals = {}
            for x in allv:
                v = m.eval(x, model_completion=True)
                try:
                    vals[str(x)] = Fraction(v.numerator_as_long(), v.denominator_as_long())
                except Exception:
                    a = v.approx(20)
                    vals[str(x)] = Fraction(a.numerator_as_long(), a.denominator_as_long())
            if hom:
                for (v, c) in one:
                    vals[str(v)] = Fraction(c.numerator_as_long(), c.denominator_as_long())
            return "sat:" + name, vals, time.time() - t0, hom
        if rr != z3.unsat:
            worst = "unknown:" + name
    return worst, None, time.time() - t0, hom


FIXED_PROBES = {
    1: [[0.1], [1e9 + 7]],
    2: [[1e9 + 4, 1e9 + 7], [2.0 ** 40 + 1, 2.0 ** 40 - 1], [0.1, 0.30000000000000004], [-1e12 - 1, -1e12 + 1]],
    3: [[1e9 + 4, 1e9 + 7, 1e9 + 13], [2.0 ** 40 + 1, 2.0 ** 40 + 1, 2.0 ** 40 - 1], [0.1, 0.2, 0.30000000000000004], [1e12, 1e12 + 1, 1e12 + 2],
        [-3e11 - 1, -3e11, -3e11 + 2], [1e6 + 1, 1e6 + 2, 1e6 + 6], [3e9 + 2, 3e9 + 3, 3e9 + 7]],
    4: [[1e9 + 4, 1e9 + 7, 1e9 + 13, 1e9 + 16], [2.0 ** 40, 2.0 ** 40 + 2, 2.0 ** 40 - 2, 2.0 ** 40], [1e12, 1e12 + 1, 1e12 + 2, 1e12 + 3],
        [0.1, 0.7, 0.30000000000000004, 1e-3], [1e6 + 1, 1e6 + 2, 1e6 + 6, 1e6 + 3], [3e9 + 5, 3e9 + 8, 3e9 + 14, 3e9 + 18]],
}
# second coordinate for the covariance probes: offsets of the same size, partially correlated
FIXED_Y = {2: [[-7e8 + 2, -7e8 + 1], [2.0 ** 39 + 3, 2.0 ** 39 + 1], [0.7, 0.1], [1e12 + 3, 1e12 + 1]],
           3: [[-7e8 + 2, -7e8 + 1, -7e8 + 5], [2.0 ** 39 + 3, 2.0 ** 39 + 1, 2.0 ** 39 + 2], [0.7, 0.1, 0.4], [1e12 + 3, 1e12 + 1, 1e12 + 7],
               [5e11 + 1, 5e11 + 4, 5e11 + 2], [1e6 + 3, 1e6 + 1, 1e6 + 2], [-3e9 - 1, -3e9 - 4, -3e9 - 2]]}


def envelope_replay(ty, accessor, k, candidates, chunks=None):
    """Scenario: the candidate data sets (solver models scaled a few ways + fixed ill-conditioned probes) through the real code."""
    from .replay import f2w
    kind = kind_of(accessor)
    coord = base_stat(accessor)[1]

    def build(vals):
        datasets = []     # list of (xs, ys or None)
        for c in candidates:
            bx = [float(c["x%d" % j]) for j in range(k)]
            by = [float(c["o%d" % j]) for j in range(k)] if kind == "cov" else None
            for sc in (1.0, 3.0, 1e-5, 12345.678, 1e9):
                datasets.append(([b * sc for b in bx], None if by is None else [b * sc * 0.7 for b in by]))
        for i, d in enumerate(FIXED_PROBES.get(k, [])):
            if kind == "cov":
                if i >= len(FIXED_Y.get(k, [])):
                    continue
                datasets.append((d, FIXED_Y[k][i]))
            else:
                datasets.append((d, None))
        program = []

        def addline(x, y, j, n):
            if kind == "cov":
                return "add %s %s" % (f2w(x), f2w(y))
            if coord is None:
                return "add " + f2w(x)
            o = 0.25 * x + (j - n / 2.0)          # the other coordinate: anything finite, not read by the accessor under test
            return "add %s %s" % ((f2w(x), f2w(o)) if coord == "x" else (f2w(o), f2w(x)))
        for dx, dy in datasets:
            n = len(dx)
            lines = [addline(dx[j], dy[j] if dy else None, j, n) for j in range(n)]
            if not chunks:
                program += ["new " + ty] + lines + ["dump"]
                continue
            pos = 0
            for ci, c in enumerate(chunks):
                program += ["new " + ty] + lines[pos:pos + c]
                pos += c
                if ci:
                    program.append("merge")
            program.append("dump")
        return program, None, {"mode": "envelope", "datasets": [list(d[0]) for d in datasets], "datasets_y": [d[1] for d in datasets],
                               "accessor": accessor, "C": C_OF[accessor], "type": ty}
    return {"vars": [], "build": build}


def envelope_misses(dumps, info, profile):
    """compare the dumped statistic with the exact one; a miss is an error above C*n*kappa*u*scale (the property's envelope)"""
    out = []
    acc_full, C = info["accessor"], info["C"]
    acc = base_stat(acc_full)[0]
    native = NATIVE_ACCESSOR.get(acc, acc_full)
    u = Fraction(1, 2 ** 53)
    ysets = info.get("datasets_y") or [None] * len(info["datasets"])
    for d, data, ydata in zip(dumps, info["datasets"], ysets):
        xs = [Fraction(x) for x in data]
        n = len(xs)
        mean = sum(xs) / n
        m2 = sum((x - mean) ** 2 for x in xs)
        if m2 == 0:
            continue
        X = max(abs(x) for x in xs)
        sd = (float(m2 / n)) ** 0.5
        kappa = 1 + float(X) / sd
        if acc in ("population_covariance", "sample_covariance"):
            ys = [Fraction(y) for y in ydata]
            my = sum(ys) / n
            m2y = sum((y - my) ** 2 for y in ys)
            if m2y == 0:
                continue
            kappa = max(kappa, 1 + float(max(abs(y) for y in ys)) / (float(m2y / n)) ** 0.5)
            sxy = sum((x - mean) * (y - my) for x, y in zip(xs, ys))
            if acc == "sample_covariance" and n < 2:
                continue
            exact = sxy / n if acc == "population_covariance" else sxy / (n - 1)
            scale = math.sqrt(float(m2 / n) * float(m2y / n))
        elif acc == "mean":
            exact, scale = mean, X
        elif acc == "population_variance":
            exact = m2 / n
            scale = exact
        elif acc == "sample_variance":
            if n < 2:
                continue
            exact = m2 / (n - 1)
            scale = exact
        elif acc == "variance_of_mean":
            if n < 2:
                continue
            exact = m2 / (n - 1) / n
            scale = exact
        elif acc == "sum_3":
            m3 = sum((x - mean) ** 3 for x in xs)
            a3 = sum(abs(x - mean) ** 3 for x in xs) / n
            exact = math.sqrt(n) * float(m3) / float(m2) ** 1.5        # skewness; evaluation error ~ 4u*|skewness| << envelope
            scale = float(a3) / sd ** 3
        elif acc == "sum_4":
            m4 = sum((x - mean) ** 4 for x in xs)
            exact = n * m4 / (m2 * m2) - 3                              # kurtosis
            scale = float(m4 / n) / sd ** 4
        else:
            continue
        if kappa > 1e12:
            continue
        got = d.get(native)
        if got is None:
            continue
        if got != got or got in (float("inf"), float("-inf")):
            out.append({"profile": profile, "data": data, "data_y": ydata, "accessor": native, "got": str(got), "exact": float(exact)})
            continue
        err = abs(Fraction(got) - Fraction(exact))
        allowed = C * n * kappa * float(u) * float(scale)
        if float(err) > allowed:
            out.append({"profile": profile, "data": data, "data_y": ydata, "accessor": native, "got": got, "exact": float(exact),
                        "error_in_units_of_u_kappa_scale": float(err) / (kappa * float(u) * float(scale)), "allowed_units": C * n})
    return out


def check_stream_rounding(W, prop, ty, k, accessor, timeout_ms=60000, c2=None, nproc=8, chunks=None, budget_s=None):
    """budget_s: wall-clock cap for the whole obligation (default 120 s quick / 900 s thorough); cases not examined by then count as
    not established (a change that multiplies the sign cases must not hang the check)."""
    t0 = time.time()
    if budget_s is None:
        budget_s = 120.0 if W.tier == "quick" else 900.0
    deadline = t0 + budget_s
    name = "%s.%s rounding envelope (%d observations%s)" % (ty, accessor, k, "" if not chunks else ", chunks %s merged" % "+".join(map(str, chunks)))
    native = NATIVE_ACCESSOR.get(base_stat(accessor)[0], accessor)
    role = "%s:%s.%s-within-envelope" % (prop, ty, native)
    C = C_OF[accessor]
    kind = kind_of(accessor)
    c2 = c2 or 1000 * k
    K = KAPPA_OF[kind]
    res = Result(obligation="M:" + name, engine="mirsym", role=role,
                 note="rigorous rounding-error bound of the computed statistic (standard model, u = 2^-53) <= %d*n*kappa*u*scale for all finite "
                      "data with kappa <= %g, n = %d; per sign case and argmax position, max|x| normalised to 1 after a homogeneity check" % (C, K, k))
    if not (Fraction(c2) * (K ** KPOW[kind]) * I.U53 <= k):
        raise Unsupported("rounding analysis: higher-order constant too large")
    xs, ys, r, e1, R = stream_bounds(W, ty, k, accessor, chunks)
    extra, dev = [], {}
    if kind in ("m3", "m4"):
        mean = sum(xs[1:], xs[0]) / len(xs)
        for x in xs:
            c = (x - mean) >= 0
            extra.append(c)
            dev[x.get_id()] = z3.If(c, x - mean, mean - x)
    free, fixed = _sign_conditions([e1, R], extra)
    cases, complete = _cases(xs, ys, free, deadline=t0 + budget_s / 3.0)
    # decide the cases in forked workers (z3 terms are not picklable; every worker inherits them)
    rd, wr = os.pipe()
    pids = []
    for w in range(nproc):
        pid = os.fork()
        if pid == 0:
            os.close(rd)
            try:
                for idx, case in enumerate(cases):
                    if idx % nproc != w:
                        continue
                    if time.time() > deadline:
                        break
                    try:
                        verdict, vals, secs, hom = _decide_case(xs, ys, r, e1, R, free, fixed, case, kind, k, C, c2, timeout_ms, dev)
                    except Exception as e:
                        verdict, vals, secs, hom = "error:%r" % (e,), None, 0.0, False
                    rec = {"idx": idx, "verdict": verdict, "secs": round(secs, 2), "hom": hom,
                           "vals": None if vals is None else {a: [b.numerator, b.denominator] for a, b in vals.items()}}
                    os.write(wr, (json.dumps(rec) + "\n").encode())
            finally:
                os._exit(0)
        pids.append(pid)
    os.close(wr)
    buf = b""
    while True:
        chunk = os.read(rd, 65536)
        if not chunk:
            break
        buf += chunk
    os.close(rd)
    for p in pids:
        os.waitpid(p, 0)
    recs = [json.loads(l) for l in buf.decode().splitlines() if l.strip()]
    res["cases"] = len(cases)
    res["sign_conditions"] = len(free)
    res["cases_proved"] = sum(1 for x in recs if x["verdict"] == "unsat")
    res["normalised_cases"] = sum(1 for x in recs if x["hom"])
    res["solver_s"] = round(sum(x["secs"] for x in recs), 2)
    res["wall_s"] = round(time.time() - t0, 2)
    not_proved = [x for x in recs if x["verdict"] != "unsat"]
    res["case_enumeration_complete"] = complete
    if complete and len(recs) == len(cases) and cases and not not_proved:
        res["verdict"] = "proved"
    else:
        cands = []
        for x in not_proved:
            if x["vals"]:
                cands.append({a: Fraction(b[0], b[1]) for a, b in x["vals"].items()})
        res["verdict"] = "violated"      # provisional: confirm() decides between violation (measured) and unestablished
        res["unestablished_ok"] = True
        res["reason"] = "bound not established in %d of %d%s cases (%s%s)" % (
            len(not_proved) + len(cases) - len(recs), len(cases), "" if complete else "+", sorted({x["verdict"] for x in not_proved})[:4],
            "" if len(recs) == len(cases) else "; %d cases not examined within %.0f s" % (len(cases) - len(recs), budget_s))
        res["_replay"] = (envelope_replay(ty, accessor, k, cands[:6], chunks), {})
    W.results.append(res)
    if os.environ.get("MIRSYM_VERBOSE"):
        print("  [mirsym] %-70s %-12s %.2fs %s" % (res["obligation"][:70], res["verdict"], res["wall_s"], res.get("reason", "")), flush=True)
    return res
