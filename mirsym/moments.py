"""Engine M obligations for the moment family (Mean, Variance, Skewness, Kurtosis, define_moments! types)."""
import itertools

import z3

from .interp import F, Agg, Cell, Ref, Unsupported, b_and, b_not, b_or, is_sym, to_bool, to_real
from .lib import MAXN, R, add_step_oracle, binom, definitional, feq, g_feed, g_goal, g_merge, merge_oracle
from . import rp

# type name -> (highest central sum order, layout)
FAMILY = {"Mean": (1, "nested"), "Variance": (2, "nested"), "Skewness": (3, "nested"), "Kurtosis": (4, "nested"),
          "Moments4": (4, "array"), "M5": (5, "array"), "M6": (6, "array"), "M8": (8, "array"), "M10": (10, "array")}


def mk(W, ty, n, mu, M):
    P, layout = FAMILY[ty]
    if layout == "nested":
        parts = [F(mu), n] + [F(M[p]) for p in range(2, P + 1)]
    else:
        parts = [n, F(mu), Agg([F(M[p]) for p in range(2, P + 1)], "array")]
    if is_sym(n):
        W._last_state = (ty, n, mu, M)      # lets accessor obligations describe how to replay a counterexample state
    return W.from_parts(ty, parts)


def get(W, ty, val):
    """-> (n, avg F, {p: F})"""
    P, layout = FAMILY[ty]
    t = W.parts(ty, val).fields
    if layout == "nested":
        return t[1], t[0], {p: t[p] for p in range(2, P + 1)}
    return t[0], t[1], {p: t[2].fields[p - 2] for p in range(2, P + 1)}


def sym_state(tag, P):
    n = z3.Real("n" + tag)   # counts are modelled as reals: the identities are rational functions of n (see lib.int_model)
    mu = z3.Real("mu" + tag)
    M = {p: z3.Real("M%d%s" % (p, tag)) for p in range(2, P + 1)}
    return n, mu, M


def rep_inv(n, mu, M):
    """What every reachable state satisfies and an implementation may rely on."""
    # counts are reals standing for integers: keep the integrality facts that sample-size case splits depend on
    cs = [n >= 0, n < MAXN, z3.Or(n == 0, n == 1, n == 2, n == 3, n == 4, n >= 5)]
    zero = [mu == 0] + [M[p] == 0 for p in M]
    cs.append(z3.Implies(n == 0, z3.And(*zero)))
    if M:
        cs.append(z3.Implies(n == 1, z3.And(*[M[p] == 0 for p in M])))
    for p in M:
        if p % 2 == 0:
            cs.append(M[p] >= 0)
    if 2 in M:
        # zero spread means all observations are equal: every central sum vanishes
        for p in M:
            if p > 2:
                cs.append(z3.Implies(M[2] == 0, M[p] == 0))
    return cs


def state_eq(n1, a1, M1, n, mu, M):
    """implementation state (ints, F) equals expected (exprs)"""
    cs = [to_real_int_eq(n1, n), feq(a1, mu)]
    for p in M:
        cs.append(feq(M1[p], M[p]))
    return b_and(*cs)


def to_real_int_eq(a, b):
    if not is_sym(a) and not is_sym(b):
        return a == b
    from .interp import to_int
    return to_int(a) == to_int(b)


def add_method(ty):
    return "add"


def check_new(W, prop, ty):
    P, _ = FAMILY[ty]
    for ctor in ("new", "default"):
        v = W.call_pure(ty, ctor, [])
        n, a, M = get(W, ty, v)
        goal = state_eq(n, a, M, 0, z3.RealVal(0), {p: z3.RealVal(0) for p in M})
        W.prove("%s.%s-is-empty-summary" % (ty, ctor), [], goal, role="%s:%s.%s" % (prop, ty, ctor),
                note="%s::%s() has count 0, mean field 0 and zero central sums" % (ty, ctor))


def check_add_step(W, prop, ty):
    """From any exact summary (any n >= 0), add(x) yields the exact summary of the enlarged multiset."""
    P, _ = FAMILY[ty]
    n, mu, M = sym_state("", P)
    x = z3.Real("x")
    pre = rep_inv(n, mu, M)
    st = mk(W, ty, n, mu, M)
    res = W.method(ty, "add", st, [F(x)], pc=pre)
    en, emu, eM = add_step_oracle(n, mu, M, x, P)
    goals = []
    panics = []
    for o, after in res:
        if o.kind != "return":
            panics.append(o)
            continue
        n1, a1, M1 = get(W, ty, after)
        goals.append(z3.Implies(z3.And(*[to_bool(c) for c in o.pc]) if o.pc else z3.BoolVal(True),
                                to_bool(state_eq(n1, a1, M1, en, emu, eM))))
    for o in panics:
        W.prove("%s.add-step-no-panic[%s]" % (ty, o.msg), pre + [z3.And(*[to_bool(c) for c in o.pc])], False,
                role="%s:%s.add-panics" % (prop, ty), note="a panicking path of add is feasible: %s" % o.msg)
    if not goals:
        raise Unsupported("%s::add has no returning path" % ty)
    W.prove("%s.add-step(n symbolic, %d path%s)" % (ty, len(goals), "s" if len(goals) != 1 else ""), pre, z3.And(*goals),
            role="%s:%s.add-step" % (prop, ty),
            note="inductive step for every n >= 0 and every real x: count+1, mean and central sums up to order %d equal the binomial-theorem update" % P,
            replay=rp.state_replay(ty, n, mu, M, "add", x))


def check_merge_step(W, prop, ty):
    P, _ = FAMILY[ty]
    na, mua, Ma = sym_state("a", P)
    nb, mub, Mb = sym_state("b", P)
    pre = rep_inv(na, mua, Ma) + rep_inv(nb, mub, Mb) + [na + nb < MAXN]
    a = mk(W, ty, na, mua, Ma)
    b = mk(W, ty, nb, mub, Mb)
    cb = Cell(b)
    ca = Cell(a)
    outs = W.run(ty, "merge", [Ref(ca, ()), Ref(cb, ())], pc=pre, roots={"a": ca, "b": cb})
    en, emu, eM = merge_oracle(na, mua, Ma, nb, mub, Mb, P)
    goals = []
    per_order = {}
    for o in outs:
        pcs = z3.And(*[to_bool(c) for c in o.pc]) if o.pc else z3.BoolVal(True)
        if o.kind != "return":
            W.prove("%s.merge-step-no-panic[%s]" % (ty, o.msg), pre + [pcs], False, role="%s:%s.merge-panics" % (prop, ty),
                    note="a panicking path of merge is feasible: %s" % o.msg)
            continue
        n1, a1, M1 = get(W, ty, o.state.roots["a"].v)
        n2, a2, M2 = get(W, ty, o.state.roots["b"].v)
        unchanged = to_bool(state_eq(n2, a2, M2, nb, mub, Mb))

        def expect(sel):
            # sel(n, mu, M) -> Bool comparing the implementation's result with one candidate summary
            return z3.If(nb == 0, to_bool(sel(na, mua, Ma)), z3.If(na == 0, to_bool(sel(nb, mub, Mb)), to_bool(sel(en, emu, eM))))
        if P <= 6:
            goals.append(z3.Implies(pcs, z3.And(expect(lambda n, mu, M: state_eq(n1, a1, M1, n, mu, M)), unchanged)))
        else:
            # high orders: one query per central sum keeps each polynomial identity small
            per_order.setdefault("count-mean-arg", []).append(
                z3.Implies(pcs, z3.And(expect(lambda n, mu, M: b_and(to_real_int_eq(n1, n), feq(a1, mu))), unchanged)))
            for p in range(2, P + 1):
                per_order.setdefault(p, []).append(z3.Implies(pcs, expect((lambda p: lambda n, mu, M: feq(M1[p], M[p]))(p))))
    note = ("for all counts na, nb >= 0 and all real summaries: merged count, mean and central sums up to order %d equal those of "
            "the union (binomial theorem about the pooled mean); empty operands are identities; the argument is unchanged" % P)
    rpl = rp.state_replay(ty, na, mua, Ma, "merge", other=(nb, mub, Mb))
    if goals:
        W.prove("%s.merge-step(na, nb symbolic, %d paths)" % (ty, len(goals)), pre, z3.And(*goals), role="%s:%s.merge-step" % (prop, ty), note=note,
                replay=rpl)
    for key, gs in per_order.items():
        W.prove("%s.merge-step[%s](na, nb symbolic, %d paths)" % (ty, ("M%d" % key) if isinstance(key, int) else key, len(gs)), pre,
                z3.And(*gs), role="%s:%s.merge-step" % (prop, ty), note=note, replay=rpl)


def feed(W, ty, vals, pre=()):
    """new() then add each value, following every feasible path: guarded list of final values"""
    return g_feed(W, ty, [[F(x)] for x in vals], pre)


def check_def_k(W, prop, ty, k):
    """k symbolic observations from new(): fields equal the statistics written out by definition."""
    P, _ = FAMILY[ty]
    xs = [z3.Real("x%d" % j) for j in range(k)]
    gv = feed(W, ty, xs)
    kk, mean, M = definitional(xs, P)

    def spec(v):
        n1, a1, M1 = get(W, ty, v)
        return state_eq(n1, a1, M1, kk, mean, M)
    W.prove("%s.def-%d%s" % (ty, k, "" if len(gv) == 1 else "(%d paths)" % len(gv)), [], g_goal(gv, spec), role="%s:%s.definition" % (prop, ty),
            note="%d symbolic real observations added to new(): count, mean and sums of (x-mean)^p, p <= %d, by definition" % (k, P),
            replay=rp.stream_replay(ty, xs))


def compositions(k, parts):
    """all ways to cut range(k) into `parts` contiguous, possibly empty chunks"""
    for cuts in itertools.combinations_with_replacement(range(k + 1), parts - 1):
        b = (0,) + cuts + (k,)
        yield [(b[j], b[j + 1]) for j in range(parts)]


def trees(lo, hi):
    """all binary merge trees over leaves lo..hi-1 (in order)"""
    if hi - lo == 1:
        yield lo
        return
    for mid in range(lo + 1, hi):
        for l in trees(lo, mid):
            for r in trees(mid, hi):
                yield (l, r)


def check_def_merge(W, prop, ty, k, max_chunks):
    """k symbolic values, every composition into <= max_chunks contiguous chunks (empty allowed) and every merge tree."""
    P, _ = FAMILY[ty]
    xs = [z3.Real("x%d" % j) for j in range(k)]
    kk, mean, M = definitional(xs, P)

    def spec(v):
        n1, a1, M1 = get(W, ty, v)
        return state_eq(n1, a1, M1, kk, mean, M)
    goals = []
    count = 0
    variants = []
    leaf_cache = {}
    for parts in range(1, max_chunks + 1):
        for comp in compositions(k, parts):
            leaves = []
            for (a, b) in comp:
                if (a, b) not in leaf_cache:
                    leaf_cache[(a, b)] = feed(W, ty, xs[a:b])
                leaves.append(leaf_cache[(a, b)])
            for tree in trees(0, parts):
                variants.append((comp, tree))

                def build(t):
                    if isinstance(t, int):
                        return leaves[t]
                    return g_merge(W, ty, build(t[0]), build(t[1]))
                goals.append(g_goal(build(tree), spec))
                count += 1
    W.prove("%s.def-merge-%d(<=%d chunks: %d chunkings x trees)" % (ty, k, max_chunks, count), [], z3.And(*goals),
            role="%s:%s.merge-trees" % (prop, ty),
            note="%d symbolic values; exhaustively every composition into <= %d contiguous chunks (empty ones included) and every binary "
                 "merge tree: the merged summary equals the definition on the whole sequence" % (k, max_chunks),
            replay=rp.stream_replay(ty, xs, variants=variants))


# ------------------------------------------------------------------------------------------ accessors

def acc(W, ty, meth, st, extra=(), pc=()):
    """call an accessor; returns list of (path-condition, F|value|'panic')"""
    out = []
    for o, _ in W.method(ty, meth, st, list(extra), pc=pc):
        pcs = z3.And(*[to_bool(c) for c in o.pc]) if o.pc else z3.BoolVal(True)
        out.append((pcs, o.value if o.kind == "return" else "panic", o))
    return out


def acc_spec(W, prop, ty, meth, pre, st, spec, extra=(), label=None, note="", replay=None):
    """spec(value F) -> Bool that must hold on every path (panic is a failure)"""
    if replay is None and getattr(W, "_last_state", None) and W._last_state[0] == ty:
        replay = rp.state_replay(*W._last_state)
    goals = []
    for pcs, v, o in acc(W, ty, meth, st, extra, pc=pre):
        if isinstance(v, str):
            goals.append(z3.Implies(pcs, z3.BoolVal(False)))
        else:
            goals.append(z3.Implies(pcs, to_bool(spec(v))))
    W.prove("%s.%s" % (ty, label or meth), pre, z3.And(*goals), role="%s:%s.%s" % (prop, ty, label or meth), note=note, replay=replay)


def is_nan(v):
    return to_bool(v.bad)


def real_n(n):
    from .lib import as_real
    return as_real(n)


def check_basic_accessors(W, prop, ty):
    """len / is_empty / mean on an arbitrary summary."""
    P, _ = FAMILY[ty]
    n, mu, M = sym_state("", P)
    pre = rep_inv(n, mu, M)
    st = mk(W, ty, n, mu, M)
    acc_spec(W, prop, ty, "len", pre, st, lambda v: to_real_int_eq(v, n), note="len() is the count")
    acc_spec(W, prop, ty, "is_empty", pre, st, lambda v: to_bool(v) == (n == 0), note="is_empty() iff count is 0")
    acc_spec(W, prop, ty, "mean", pre, st, lambda v: z3.If(n == 0, is_nan(v), to_bool(feq(v, mu))), note="mean() is the mean, NaN when empty")


def check_variance_accessors(W, prop, ty):
    P, layout = FAMILY[ty]
    n, mu, M = sym_state("", P)
    pre = rep_inv(n, mu, M)
    st = mk(W, ty, n, mu, M)
    nr = real_n(n)
    if layout == "nested":
        acc_spec(W, prop, ty, "population_variance", pre, st,
                 lambda v: z3.If(n == 0, is_nan(v), to_bool(feq(v, M[2] / nr))), note="population variance = M2/n, NaN when empty")
    acc_spec(W, prop, ty, "sample_variance", pre, st,
             lambda v: z3.If(n < 2, is_nan(v), to_bool(feq(v, M[2] / (nr - 1)))),
             note="sample variance = M2/(n-1) = population variance * n/(n-1); NaN below two observations")
    if ty == "Variance":
        acc_spec(W, prop, ty, "variance_of_mean", pre, st,
                 lambda v: z3.If(n == 0, is_nan(v), z3.If(n == 1, to_bool(feq(v, 0)), to_bool(feq(v, M[2] / ((nr - 1) * nr))))),
                 note="variance of the mean = sample variance / n (0 for one observation, NaN when empty)")
        acc_spec(W, prop, ty, "error", pre, st,
                 lambda v: z3.If(n == 0, is_nan(v), z3.And(z3.Not(is_nan(v)), R(v) >= 0,
                                                           R(v) * R(v) == z3.If(n == 1, z3.RealVal(0), M[2] / ((nr - 1) * nr)))),
                 note="error() >= 0 and error()^2 = variance of the mean")
        acc_spec(W, prop, ty, "estimate", pre, st,
                 lambda v: z3.If(n == 0, is_nan(v), to_bool(feq(v, M[2] / nr))), note="estimate() is the population variance")
    if ty in ("Skewness", "Kurtosis"):
        acc_spec(W, prop, ty, "error_mean", pre, st,
                 lambda v: z3.If(n == 0, is_nan(v), z3.And(z3.Not(is_nan(v)), R(v) >= 0,
                                                           R(v) * R(v) == z3.If(n == 1, z3.RealVal(0), M[2] / ((nr - 1) * nr)))),
                 note="error_mean() >= 0 and its square is sample variance / n")


def check_skew_kurt_accessors(W, prop, ty):
    P, _ = FAMILY[ty]
    n, mu, M = sym_state("", P)
    pre = rep_inv(n, mu, M)
    st = mk(W, ty, n, mu, M)
    nr = real_n(n)

    def skew_spec(v):
        # r = m3/m2^1.5 with m_k = M_k/n:  r defined, sign(r) = sign(M3), r^2 * M2^3 = n * M3^2
        return z3.If(n == 0, is_nan(v),
                     z3.If(M[3] == 0, to_bool(feq(v, 0)),
                           z3.And(z3.Not(is_nan(v)), (R(v) > 0) == (M[3] > 0), R(v) * R(v) * M[2] * M[2] * M[2] == nr * M[3] * M[3])))
    acc_spec(W, prop, ty, "skewness", pre, st, skew_spec,
             note="skewness() = m3/m2^1.5 (sign of m3, squared identity), 0 for vanishing third sum, NaN when empty")
    if ty == "Kurtosis":
        acc_spec(W, prop, ty, "kurtosis", pre, st,
                 lambda v: z3.If(n == 0, is_nan(v), z3.If(M[4] == 0, to_bool(feq(v, 0)), to_bool(feq(v, nr * M[4] / (M[2] * M[2]) - 3)))),
                 note="kurtosis() = m4/m2^2 - 3 (0 for a constant sample, NaN when empty)")


def check_moments_accessors(W, prop, ty, orders=None):
    P, _ = FAMILY[ty]
    n, mu, M = sym_state("", P)
    pre = rep_inv(n, mu, M)
    st = mk(W, ty, n, mu, M)
    nr = real_n(n)
    for p in (orders or range(0, P + 1)):
        if p == 0:
            spec = lambda v: to_bool(feq(v, 1))
        elif p == 1:
            spec = lambda v: to_bool(feq(v, 0))
        else:
            spec = (lambda p: lambda v: z3.If(n == 0, is_nan(v), to_bool(feq(v, M[p] / nr))))(p)
        acc_spec(W, prop, ty, "central_moment", pre, st, spec, extra=[p], label="central_moment(%d)" % p,
                 note="central_moment(%d) = M%d/n" % (p, p))
    for p in (orders or range(0, P + 1)):
        if p == 0:
            spec = lambda v: to_bool(feq(v, nr))
            pre_p = pre
        elif p == 1:
            spec = lambda v: to_bool(feq(v, 0))
            pre_p = pre
        elif p == 2:
            spec = lambda v: to_bool(feq(v, 1))
            pre_p = pre
        else:
            # r * s^p = M_p/n where s >= 0, s^2 = M2/n > 0
            s = z3.Real("sd")
            pre_p = pre + [n >= 1, M[2] > 0, s > 0, s * s == M[2] / nr]
            spec = (lambda p: lambda v: z3.And(z3.Not(is_nan(v)), R(v) * s ** p == M[p] / nr))(p)
        acc_spec(W, prop, ty, "standardized_moment", pre_p, st, spec, extra=[p], label="standardized_moment(%d)" % p,
                 note="standardized_moment(%d): 0 -> n, 1 -> 0, 2 -> 1, p >= 3 -> m_p / stddev^p" % p)


# ------------------------------------------------------------------------------------------ C10: bias-corrected statistics

def check_sample_stats(W, prop, ty):
    """sample_skewness / sample_excess_kurtosis of define_moments! types on an exact summary"""
    P, _ = FAMILY[ty]
    n, mu, M = sym_state("", P)
    pre = rep_inv(n, mu, M)
    st = mk(W, ty, n, mu, M)
    nr = real_n(n)

    def skew_spec(v):
        # G = sqrt(n(n-1))/(n-2) * m3/m2^1.5, m_k = M_k/n:  defined, sign(G) = sign(M3),
        # G^2 (n-2)^2 M2^3 = n^2 (n-1) M3^2      [ (m3/m2^1.5)^2 = n M3^2 / M2^3 ]
        general = z3.And(z3.Not(is_nan(v)), (R(v) > 0) == (M[3] > 0), (R(v) < 0) == (M[3] < 0),
                         R(v) * R(v) * (nr - 2) * (nr - 2) * M[2] * M[2] * M[2] == nr * nr * (nr - 1) * M[3] * M[3])
        return z3.If(n == 0, is_nan(v), z3.If(n == 1, to_bool(feq(v, 0)),
                                              z3.If(n == 2, z3.Implies(z3.And(M[2] > 0, M[3] == 0), to_bool(feq(v, 0))),
                                                    z3.Implies(M[2] > 0, general))))
    acc_spec(W, prop, ty, "sample_skewness", pre, st, skew_spec,
             note="adjusted Fisher-Pearson coefficient sqrt(n(n-1))/(n-2) * m3/m2^1.5 for n >= 3 with the sign of m3 (negative skew too); "
                  "NaN when empty, 0 for one observation, 0 for two (where m3 = 0)")
    acc_spec(W, prop, ty, "sample_excess_kurtosis", pre, st,
             lambda v: z3.If(n < 4, is_nan(v), z3.Implies(M[2] > 0, to_bool(feq(
                 v, (nr - 1) / ((nr - 2) * (nr - 3)) * ((nr + 1) * (nr * M[4] / (M[2] * M[2]) - 3) + 6))))),
             note="(n-1)/((n-2)(n-3)) * ((n+1)(m4/m2^2 - 3) + 6) for n >= 4; NaN below four observations")


# ------------------------------------------------------------------------------------------ C17: signs and hulls in exact arithmetic

def check_merge_hull(W, prop, ty):
    """merged mean is a convex combination of the two means (hence inside the hull of the data)"""
    P, _ = FAMILY[ty]
    na, mua, Ma = sym_state("a", P)
    nb, mub, Mb = sym_state("b", P)
    lo, hi = z3.Reals("lo hi")
    pre = rep_inv(na, mua, Ma) + rep_inv(nb, mub, Mb) + [na >= 1, nb >= 1, lo <= mua, mua <= hi, lo <= mub, mub <= hi]
    a, b = mk(W, ty, na, mua, Ma), mk(W, ty, nb, mub, Mb)
    ca, cb = Cell(a), Cell(b)
    goals = []
    for o in W.run(ty, "merge", [Ref(ca, ()), Ref(cb, ())], pc=pre, roots={"a": ca}):
        pcs = z3.And(*[to_bool(c) for c in o.pc[len(pre):]]) if o.pc[len(pre):] else z3.BoolVal(True)
        if o.kind != "return":
            goals.append(z3.Implies(pcs, z3.BoolVal(False)))
            continue
        n1, a1, M1 = get(W, ty, o.state.roots["a"].v)
        g = [z3.Not(is_nan(a1)), R(a1) >= lo, R(a1) <= hi]
        if 2 in M1:
            g += [z3.Not(is_nan(M1[2])), R(M1[2]) >= 0]
        goals.append(z3.Implies(pcs, z3.And(*g)))
    W.prove("%s.merge-hull" % ty, pre, z3.And(*goals), role="%s:%s.merged-mean-within-data-range" % (prop, ty),
            note="for all non-empty summaries: the merged mean lies between the two means; the merged sum of squares is >= 0 (exact arithmetic)")


def check_sign_steps(W, prop, ty):
    """after add, the sum of squares is >= the old one (exact arithmetic, all n)"""
    P, _ = FAMILY[ty]
    n, mu, M = sym_state("", P)
    x = z3.Real("x")
    pre = rep_inv(n, mu, M)
    st = mk(W, ty, n, mu, M)
    goals = []
    for o, after in W.method(ty, "add", st, [F(x)], pc=pre):
        pcs = z3.And(*[to_bool(c) for c in o.pc[len(pre):]]) if o.pc[len(pre):] else z3.BoolVal(True)
        if o.kind != "return":
            goals.append(z3.Implies(pcs, z3.BoolVal(False)))
            continue
        n1, a1, M1 = get(W, ty, after)
        lo = z3.If(x < mu, x, mu)
        hi = z3.If(x < mu, mu, x)
        goals.append(z3.Implies(pcs, z3.And(z3.Not(is_nan(M1[2])), R(M1[2]) >= M[2], z3.Implies(n >= 1, z3.And(R(a1) >= lo, R(a1) <= hi)))))
    W.prove("%s.add-sign-and-hull" % ty, pre, z3.And(*goals), role="%s:%s.sum-of-squares-never-decreases" % (prop, ty),
            note="for every n and every real x: the second central sum never decreases and the new mean lies between the old mean and x")
