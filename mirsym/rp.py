"""Replay descriptors: how to turn the values of a solver model into a scenario for the native replayer and the exact
expected statistics to compare its output with."""
from fractions import Fraction
from math import comb

from .replay import (FAMILY_P, central_sums, expected_cov, expected_from_summary, expected_weighted, f2w, fr)

LAYOUT = {"Mean": "nested", "Variance": "nested", "Skewness": "nested", "Kurtosis": "nested", "Moments4": "array", "M5": "array",
          "M6": "array", "M8": "array", "M10": "array"}


def dbl(v):
    return float(v)


def py_add_step(n, mu, M, x, P):
    n1 = n + 1
    delta = x - mu
    mu1 = mu + delta / n1
    s = -delta / n1
    full = {0: Fraction(n), 1: Fraction(0)}
    full.update(M)
    out = {}
    for p in range(2, P + 1):
        out[p] = sum((comb(p, k) * full[p - k] * s ** k for k in range(p + 1)), Fraction(0)) + (x - mu1) ** p
    return n1, mu1, out


def py_merge(na, mua, Ma, nb, mub, Mb, P):
    if nb == 0:
        return na, mua, dict(Ma)
    if na == 0:
        return nb, mub, dict(Mb)
    n = na + nb
    mu = (na * mua + nb * mub) / n
    da, db = mua - mu, mub - mu
    A = {0: Fraction(na), 1: Fraction(0)}
    A.update(Ma)
    B = {0: Fraction(nb), 1: Fraction(0)}
    B.update(Mb)
    out = {}
    for p in range(2, P + 1):
        out[p] = sum((comb(p, k) * (A[p - k] * da ** k + B[p - k] * db ** k) for k in range(p + 1)), Fraction(0))
    return n, mu, out


def family_parts(ty, n, mu, M):
    P = FAMILY_P[ty]
    if LAYOUT[ty] == "nested":
        return [f2w(mu), "%x" % n] + [f2w(M[p]) for p in range(2, P + 1)]
    return ["%x" % n, f2w(mu)] + [f2w(M[p]) for p in range(2, P + 1)]


def tree_program(ty, leaves_adds, tree):
    """leaves_adds: list of lists of 'add ..' lines"""
    if isinstance(tree, int):
        return ["new " + ty] + leaves_adds[tree]
    return tree_program(ty, leaves_adds, tree[0]) + tree_program(ty, leaves_adds, tree[1]) + ["merge"]


def stream_replay(ty, xs, seconds=None, variants=None, kind="family"):
    """xs (and seconds: weights or ys): z3 variables. variants: list of (composition, tree) to replay besides the plain stream."""
    vars_ = list(xs) + (list(seconds) if seconds else [])

    def build(vals):
        a = [dbl(vals[str(x)]) for x in xs]
        b = [dbl(vals[str(y)]) for y in seconds] if seconds else None
        adds = ["add %s%s" % (f2w(a[j]), (" " + f2w(b[j])) if b else "") for j in range(len(a))]
        if kind == "family":
            P = FAMILY_P[ty]
            if a:
                exp = expected_from_summary(ty, *central_sums([fr(x) for x in a], P))
            else:
                exp = expected_from_summary(ty, 0, Fraction(0), {p: Fraction(0) for p in range(2, P + 1)})
        elif kind == "weighted":
            exp = expected_weighted(ty, list(zip(a, b)))
        else:
            exp = expected_cov(list(zip(a, b)))
        program = ["new " + ty] + adds + ["dump"]
        expected = [exp]
        for comp, tree in (variants or []):
            leaves = [adds[lo:hi] for (lo, hi) in comp]
            program += tree_program(ty, leaves, tree) + ["dump"]
            expected.append(exp)
        scale = max([abs(x) for x in a] + [1.0])
        return program, expected, {"data": a, "second": b, "scale": scale}
    return {"vars": vars_, "build": build, "counts": ()}


def state_replay(ty, n, mu, M, op=None, x=None, other=None):
    """A hook-built state of the moment family; op in (None, 'add', 'merge'); other = (nb, mub, Mb) z3 vars for merge."""
    P = FAMILY_P[ty]
    vars_ = [n, mu] + [M[p] for p in range(2, P + 1)]
    counts = [n]
    if op == "add":
        vars_.append(x)
    if op == "merge":
        nb, mub, Mb = other
        vars_ += [nb, mub] + [Mb[p] for p in range(2, P + 1)]
        counts.append(nb)

    def build(vals):
        def state(nv, muv, Mv):
            nn = vals[str(nv)]
            if nn.denominator != 1 or nn < 0:
                raise ValueError("model count %s is not a natural number" % nn)
            nn = int(nn)
            m = fr(dbl(vals[str(muv)]))
            MM = {p: fr(dbl(vals[str(Mv[p])])) for p in range(2, P + 1)}
            return nn, m, MM
        na, ma, Ma = state(n, mu, M)
        program = ["parts %s %s" % (ty, " ".join(family_parts(ty, na, float(ma), {p: float(v) for p, v in Ma.items()})))]
        summ = (na, ma, Ma)
        if op == "add":
            xv = fr(dbl(vals[str(x)]))
            program.append("add " + f2w(float(xv)))
            summ = py_add_step(na, ma, Ma, xv, P)
        elif op == "merge":
            nb_, mb, Mb_ = state(*other)
            program.append("parts %s %s" % (ty, " ".join(family_parts(ty, nb_, float(mb), {p: float(v) for p, v in Mb_.items()}))))
            program.append("merge")
            summ = py_merge(na, ma, Ma, nb_, mb, Mb_, P)
        program.append("dump")
        exp = expected_from_summary(ty, *summ)
        scale = max([abs(float(ma)), 1.0] + [abs(float(v)) for v in Ma.values()])
        return program, [exp], {"state": [na, float(ma)] + [float(v) for v in Ma.values()], "scale": scale}
    return {"vars": vars_, "build": build, "counts": counts}
