"""Replay descriptors: how to turn the values of a solver model into a scenario for the native replayer and the exact
expected statistics to compare its output with."""
from fractions import Fraction
from math import comb

from .replay import (FAMILY_P, central_sums, expected_cov, expected_from_summary, expected_weighted, f2w, fr)

LAYOUT = {"Mean": "nested", "Variance": "nested", "Skewness": "nested", "Kurtosis": "nested", "Moments4": "array", "M5": "array",
          "M6": "array", "M8": "array", "M10": "array"}


def dbl(v):
    return float(v)


def py_add_step(n, mu, M, x, P):
    n1 = n + 1
    delta = x - mu
    mu1 = mu + delta / n1
    s = -delta / n1
    full = {0: Fraction(n), 1: Fraction(0)}
    full.update(M)
    out = {}
    for p in range(2, P + 1):
        out[p] = sum((comb(p, k) * full[p - k] * s ** k for k in range(p + 1)), Fraction(0)) + (x - mu1) ** p
    return n1, mu1, out


def py_merge(na, mua, Ma, nb, mub, Mb, P):
    if nb == 0:
        return na, mua, dict(Ma)
    if na == 0:
        return nb, mub, dict(Mb)
    n = na + nb
    mu = (na * mua + nb * mub) / n
    da, db = mua - mu, mub - mu
    A = {0: Fraction(na), 1: Fraction(0)}
    A.update(Ma)
    B = {0: Fraction(nb), 1: Fraction(0)}
    B.update(Mb)
    out = {}
    for p in range(2, P + 1):
        out[p] = sum((comb(p, k) * (A[p - k] * da ** k + B[p - k] * db ** k) for k in range(p + 1)), Fraction(0))
    return n, mu, out


def family_parts(ty, n, mu, M):
    P = FAMILY_P[ty]
    if LAYOUT[ty] == "nested":
        return [f2w(mu), "%x" % n] + [f2w(M[p]) for p in range(2, P + 1)]
    return ["%x" % n, f2w(mu)] + [f2w(M[p]) for p in range(2, P + 1)]


def tree_program(ty, leaves_adds, tree):
    """leaves_adds: list of lists of 'add ..' lines"""
    if isinstance(tree, int):
        return ["new " + ty] + leaves_adds[tree]
    return tree_program(ty, leaves_adds, tree[0]) + tree_program(ty, leaves_adds, tree[1]) + ["merge"]


def stream_replay(ty, xs, seconds=None, variants=None, kind="family"):
    """xs (and seconds: weights or ys): z3 variables. variants: list of (composition, tree) to replay besides the plain stream."""
    vars_ = list(xs) + (list(seconds) if seconds else [])

    def build(vals):
        a = [dbl(vals[str(x)]) for x in xs]
        b = [dbl(vals[str(y)]) for y in seconds] if seconds else None
        adds = ["add %s%s" % (f2w(a[j]), (" " + f2w(b[j])) if b else "") for j in range(len(a))]
        if kind == "family":
            P = FAMILY_P[ty]
            if a:
                exp = expected_from_summary(ty, *central_sums([fr(x) for x in a], P))
            else:
                exp = expected_from_summary(ty, 0, Fraction(0), {p: Fraction(0) for p in range(2, P + 1)})
        elif kind == "weighted":
            exp = expected_weighted(ty, list(zip(a, b)))
        else:
            exp = expected_cov(list(zip(a, b)))
        program = ["new " + ty] + adds + ["dump"]
        expected = [exp]
        for comp, tree in (variants or []):
            leaves = [adds[lo:hi] for (lo, hi) in comp]
            program += tree_program(ty, leaves, tree) + ["dump"]
            expected.append(exp)
        scale = max([abs(x) for x in a] + ([abs(y) for y in b] if b else []) + [1e-300])
        return program, expected, {"data": a, "second": b, "scale": scale}
    return {"vars": vars_, "build": build, "counts": ()}


def state_replay(ty, n, mu, M, op=None, x=None, other=None):
    """A hook-built state of the moment family; op in (None, 'add', 'merge'); other = (nb, mub, Mb) z3 vars for merge."""
    P = FAMILY_P[ty]
    vars_ = [n, mu] + [M[p] for p in range(2, P + 1)]
    counts = [n]
    if op == "add":
        vars_.append(x)
    if op == "merge":
        nb, mub, Mb = other
        vars_ += [nb, mub] + [Mb[p] for p in range(2, P + 1)]
        counts.append(nb)

    def build(vals):
        def state(nv, muv, Mv):
            nn = vals[str(nv)]
            if nn.denominator != 1 or nn < 0:
                raise ValueError("model count %s is not a natural number" % nn)
            nn = int(nn)
            m = fr(dbl(vals[str(muv)]))
            MM = {p: fr(dbl(vals[str(Mv[p])])) for p in range(2, P + 1)}
            return nn, m, MM
        na, ma, Ma = state(n, mu, M)
        program = ["parts %s %s" % (ty, " ".join(family_parts(ty, na, float(ma), {p: float(v) for p, v in Ma.items()})))]
        summ = (na, ma, Ma)
        if op == "add":
            xv = fr(dbl(vals[str(x)]))
            program.append("add " + f2w(float(xv)))
            summ = py_add_step(na, ma, Ma, xv, P)
        elif op == "merge":
            nb_, mb, Mb_ = state(*other)
            program.append("parts %s %s" % (ty, " ".join(family_parts(ty, nb_, float(mb), {p: float(v) for p, v in Mb_.items()}))))
            program.append("merge")
            summ = py_merge(na, ma, Ma, nb_, mb, Mb_, P)
        program.append("dump")
        exp = expected_from_summary(ty, *summ)
        scale = max([abs(float(ma)), 1e-300] + [abs(float(v)) ** (1.0 / p) for p, v in Ma.items()] + ([abs(float(xv))] if op == "add" else []))
        return program, [exp], {"state": [na, float(ma)] + [float(v) for v in Ma.values()], "scale": scale}
    return {"vars": vars_, "build": build, "counts": counts}


def nat(vals, v):
    x = vals[str(v)]
    if x.denominator != 1 or x < 0:
        raise ValueError("model count %s is not a natural number" % x)
    return int(x)


def wm_state_replay(ws, a, op=None, x=None, w=None, other=None):
    """WeightedMean from parts (weight sum, weighted average); op: None | 'add' (x, w) | 'merge' (other = (wb, ab))"""
    from .replay import expected_weighted
    vars_ = [ws, a] + ([x, w] if op == "add" else []) + (list(other) if op == "merge" else [])

    def build(vals):
        W0, A0 = fr(dbl(vals[str(ws)])), fr(dbl(vals[str(a)]))
        program = ["parts WeightedMean %s %s" % (f2w(float(W0)), f2w(float(A0)))]
        W1, A1 = W0, A0
        if op == "add":
            xv, wv = fr(dbl(vals[str(x)])), fr(dbl(vals[str(w)]))
            program.append("add %s %s" % (f2w(float(xv)), f2w(float(wv))))
            W1 = W0 + wv
            A1 = (W0 * A0 + wv * xv) / W1 if W1 > 0 else A0
        elif op == "merge":
            Wb, Ab = fr(dbl(vals[str(other[0])])), fr(dbl(vals[str(other[1])]))
            program.append("parts WeightedMean %s %s" % (f2w(float(Wb)), f2w(float(Ab))))
            program.append("merge")
            if Wb > 0 and W0 > 0:
                W1, A1 = W0 + Wb, (W0 * A0 + Wb * Ab) / (W0 + Wb)
            elif Wb > 0:
                W1, A1 = Wb, Ab
        program.append("dump")
        exp = {"mean": A1 if W1 > 0 else None, "sum_weights": W1}
        return program, [exp], {"scale": max(abs(float(A0)), 1e-300)}
    return {"vars": vars_, "build": build, "counts": ()}


def wmwe_state_replay(q, ws, a, mu, n, m2):
    from .replay import expected_wmwe_summary

    def build(vals):
        nn = nat(vals, n)
        Q, W0, A0, MU, M2 = [fr(dbl(vals[str(v)])) for v in (q, ws, a, mu, m2)]
        program = ["parts WeightedMeanWithError %s %s %s %s %x %s" % (f2w(float(Q)), f2w(float(W0)), f2w(float(A0)), f2w(float(MU)), nn, f2w(float(M2))),
                   "dump"]
        return program, [expected_wmwe_summary(Q, W0, A0, MU, nn, M2)], {"scale": max(abs(float(A0)), abs(float(MU)), 1e-300)}
    return {"vars": [q, ws, a, mu, n, m2], "build": build, "counts": [n]}


def cov_state_replay(A, op=None, xy=None, B=None):
    """Covariance from parts A = (n, mx, my, sxx, syy, sxy) z3 vars"""
    from .replay import expected_cov_summary
    vars_ = list(A) + (list(xy) if op == "add" else []) + (list(B) if op == "merge" else [])
    counts = [A[0]] + ([B[0]] if op == "merge" else [])

    def build(vals):
        def st(S):
            return (nat(vals, S[0]),) + tuple(fr(dbl(vals[str(v)])) for v in S[1:])

        def words(s):
            n_, mx, my, sxx, syy, sxy = s
            return "parts Covariance %s %s %s %s %s %x" % (f2w(float(mx)), f2w(float(sxx)), f2w(float(my)), f2w(float(syy)), f2w(float(sxy)), n_)
        a = st(A)
        program = [words(a)]
        res = a
        if op == "add":
            x, y = fr(dbl(vals[str(xy[0])])), fr(dbl(vals[str(xy[1])]))
            program.append("add %s %s" % (f2w(float(x)), f2w(float(y))))
            n_, mx, my, sxx, syy, sxy = a
            n1 = n_ + 1
            dx, dy = x - mx, y - my
            res = (n1, mx + dx / n1, my + dy / n1, sxx + dx * dx * n_ / n1, syy + dy * dy * n_ / n1, sxy + dx * dy * n_ / n1)
        elif op == "merge":
            b = st(B)
            program += [words(b), "merge"]
            if b[0] == 0:
                res = a
            elif a[0] == 0:
                res = b
            else:
                n_ = a[0] + b[0]
                dx, dy = b[1] - a[1], b[2] - a[2]
                f = Fraction(a[0] * b[0], n_)
                res = (n_, (a[0] * a[1] + b[0] * b[1]) / n_, (a[0] * a[2] + b[0] * b[2]) / n_, a[3] + b[3] + dx * dx * f, a[4] + b[4] + dy * dy * f,
                       a[5] + b[5] + dx * dy * f)
        program.append("dump")
        return program, [expected_cov_summary(*res)], {"scale": max(abs(float(a[1])), abs(float(a[2])), 1e-300)}
    return {"vars": vars_, "build": build, "counts": counts}
