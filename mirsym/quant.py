"""Engine M obligations for Quantile: conformance of one `add` (count >= 5) to the P-square algorithm of
Jain & Chlamtac (CACM 28(10), 1985), re-stated here from the paper, plus the range / ordering invariants,
for every count, every p in [0,1] and all real marker heights (exact arithmetic)."""
import os

import z3

from .interp import F, Agg, Cell, Ref, Unsupported, b_and, is_sym, to_bool, to_real
from .lib import MAXN, R, feq


def conj(pc):
    return z3.And(*[to_bool(c) for c in pc]) if pc else z3.BoolVal(True)


def mk_state(W, q, n, m, p):
    dm = W.parts("Quantile", W.call_pure("Quantile", "new", [F(p)], pc=[p >= 0, p <= 1])).fields[3]
    return W.from_parts("Quantile", [Agg([F(x) for x in q], "array"), Agg(list(n), "array"), Agg([F(x) for x in m], "array"), dm])


def get_state(W, v):
    t = W.parts("Quantile", v).fields
    return t[0].fields, t[1].fields, t[2].fields, t[3].fields


def wf(q, n, m, p):
    """well-formed marker state with count n[4] >= 5 (positions are reals standing for integers: gaps are >= 1)"""
    cs = [p >= 0, p <= 1, n[0] == 1, n[4] >= 5, n[4] < MAXN]
    for j in range(4):
        cs.append(q[j] <= q[j + 1])
        cs.append(n[j + 1] >= n[j] + 1)
    return cs


class PathOracle:
    """Decides, for one execution path of the implementation, which way each branch condition of the reference goes:
    linear conditions by the (linear part of the) path condition, nonlinear ones by matching an atom of the path condition
    up to polynomial normal form. Undecided conditions are reported (the path is then checked with the solver)."""

    def __init__(self, m, pc):
        self.m = m
        self.s = z3.Solver()
        self.s.set("timeout", 5000)
        self.atoms = []          # (lhs, rhs, op, polarity) for nonlinear comparison atoms of the path condition
        self.queries = 0
        self.undecided = []
        self.boundaries = []     # equalities a == b on which a strict test of the reference and a non-strict atom of the path disagree
        nonlinear = []
        for c in pc:
            if c is True:
                continue
            c = to_bool(c)
            if m.is_linear(c):
                self.s.add(c)
            else:
                nonlinear.append(c)
        for c in nonlinear:
            self._atom(c, True)
        self.undecided = []

    def _atom(self, c, pol):
        c = z3.simplify(c)
        while z3.is_not(c):
            c = c.arg(0)
            pol = not pol
        if z3.is_and(c) and pol:
            for ch in c.children():
                self._atom(ch, True)
            return
        if z3.is_or(c) and not pol:
            for ch in c.children():
                self._atom(ch, False)
            return
        if (z3.is_or(c) and pol) or (z3.is_and(c) and not pol):
            # a disjunction: disjuncts refuted by the linear part of the path condition drop out
            alive = []
            for ch in c.children():
                lit = ch if pol else z3.Not(ch)
                if self.m.is_linear(lit):
                    self.s.push()
                    self.s.add(lit)
                    r = self.s.check()
                    self.s.pop()
                    if r == z3.unsat:
                        continue
                alive.append(ch)
            if len(alive) == 1:
                self._atom(alive[0], pol)
            return
        if z3.is_app(c) and c.decl().kind() in (z3.Z3_OP_LT, z3.Z3_OP_LE, z3.Z3_OP_GT, z3.Z3_OP_GE, z3.Z3_OP_EQ):
            self.atoms.append((c.arg(0), c.arg(1), c.decl().kind(), pol))

    _zs = None
    _zcache = {}
    zero_queries = 0
    _env = None
    _ncache = {}

    @staticmethod
    def numeval(e):
        """value of e at one fixed rational point (inv(t) -> 1/t); None if undefined there. Used only to discard
        candidate identities cheaply: two identical expressions have the same value, so no true identity is lost."""
        from fractions import Fraction as Fr
        import random
        if PathOracle._env is None:
            rnd = random.Random(20260928)
            env = {}
            base = 0
            for j in range(5):
                env["q%d" % j] = Fr(rnd.randint(-97, 97), rnd.randint(1, 13))
                env["m%d" % j] = Fr(rnd.randint(-97, 97), rnd.randint(1, 13))
                base += rnd.randint(3, 11)
                env["n%d" % j] = Fr(base)
            env["p"] = Fr(rnd.randint(1, 12), 13)
            env["x"] = Fr(rnd.randint(-97, 97), rnd.randint(1, 13))
            PathOracle._env = env
        cache = PathOracle._ncache

        def ev(t):
            k = t.get_id()
            hit = cache.get(k)
            if hit is not None and hit[0].eq(t):
                return hit[1]
            if z3.is_rational_value(t):
                r = Fr(t.numerator_as_long(), t.denominator_as_long())
            elif z3.is_int_value(t):
                r = Fr(t.as_long())
            elif z3.is_true(t):
                r = True
            elif z3.is_false(t):
                r = False
            elif z3.is_const(t):
                r = PathOracle._env[str(t)]
            else:
                kind = t.decl().kind()
                ch = [ev(c) for c in t.children()]
                if kind == z3.Z3_OP_ADD:
                    r = sum(ch, Fr(0))
                elif kind == z3.Z3_OP_SUB:
                    r = ch[0]
                    for c in ch[1:]:
                        r -= c
                elif kind == z3.Z3_OP_MUL:
                    r = Fr(1)
                    for c in ch:
                        r *= c
                elif kind == z3.Z3_OP_UMINUS:
                    r = -ch[0]
                elif kind == z3.Z3_OP_TO_REAL:
                    r = ch[0]
                elif kind == z3.Z3_OP_UNINTERPRETED and t.decl().name() == "inv":
                    r = 1 / ch[0]
                elif kind == z3.Z3_OP_ITE:
                    r = ch[1] if ch[0] else ch[2]
                elif kind == z3.Z3_OP_AND:
                    r = all(ch)
                elif kind == z3.Z3_OP_OR:
                    r = any(ch)
                elif kind == z3.Z3_OP_NOT:
                    r = not ch[0]
                elif kind == z3.Z3_OP_LT:
                    r = ch[0] < ch[1]
                elif kind == z3.Z3_OP_LE:
                    r = ch[0] <= ch[1]
                elif kind == z3.Z3_OP_GT:
                    r = ch[0] > ch[1]
                elif kind == z3.Z3_OP_GE:
                    r = ch[0] >= ch[1]
                elif kind == z3.Z3_OP_EQ:
                    r = ch[0] == ch[1]
                elif kind == z3.Z3_OP_TRUE:
                    r = True
                elif kind == z3.Z3_OP_FALSE:
                    r = False
                else:
                    raise ValueError("numeval: operator " + str(t.decl()))
            cache[k] = (t, r)
            return r
        try:
            return ev(e)
        except (ValueError, ZeroDivisionError, KeyError):
            return None

    @staticmethod
    def zero(e):
        """e == 0 as an identity (valid for all values of the variables and of the inv(.) atoms): z3 verdict.
        A numeric evaluation at one point first discards expressions that are visibly non-zero."""
        r = z3.simplify(e)
        if z3.is_rational_value(r):
            return r.numerator_as_long() == 0
        nv = PathOracle.numeval(e)
        if nv is not None and nv != 0:
            return False
        key = r.get_id()
        hit = PathOracle._zcache.get(key)
        if hit is not None and hit[0].eq(r):
            return hit[1]
        if PathOracle._zs is None:
            PathOracle._zs = z3.Solver()
            PathOracle._zs.set("timeout", 5000)
        s = PathOracle._zs
        s.push()
        s.add(e != 0)
        PathOracle.zero_queries += 1
        res = s.check()
        s.pop()
        PathOracle._zcache[key] = (r, res == z3.unsat)
        return res == z3.unsat

    def lt(self, a, b):
        """decide a < b; returns True / False / None"""
        c = a < b
        if self.m.is_linear(c):
            return self.decide_linear(c)
        for (l, r, k, pol) in self.atoms:
            # normalise every atom to the form  l' - r' (<|<=) 0
            d1 = a - b
            for (x, y, strict, holds) in self._as_less(l, r, k, pol):
                # the atom states  x - y < 0 (strict) or <= 0 (non-strict), and it is true
                same = self.zero(d1 - (x - y))
                if same and strict:
                    return True            # a - b < 0 holds
                if same and not strict:
                    # the path only knows a <= b where the reference tests a < b: they part ways exactly on a == b
                    self.boundaries.append(a == b)
                if self.zero(d1 + (x - y)):
                    # atom: (b - a) < 0  or  (b - a) <= 0  ->  a > b or a >= b  ->  not (a < b)
                    return False
        self.undecided.append(c)
        return None

    @staticmethod
    def _as_less(l, r, k, pol):
        # returns statements of the form (x, y, strict, True) meaning  x < y (strict) / x <= y
        if k == z3.Z3_OP_LT:
            return [(l, r, True, True)] if pol else [(r, l, False, True)]
        if k == z3.Z3_OP_LE:
            return [(l, r, False, True)] if pol else [(r, l, True, True)]
        if k == z3.Z3_OP_GT:
            return [(r, l, True, True)] if pol else [(l, r, False, True)]
        if k == z3.Z3_OP_GE:
            return [(r, l, False, True)] if pol else [(l, r, True, True)]
        return []

    def decide_linear(self, c):
        self.queries += 2
        self.s.push()
        self.s.add(z3.Not(c))
        r1 = self.s.check()
        self.s.pop()
        if r1 == z3.unsat:
            return True
        self.s.push()
        self.s.add(c)
        r2 = self.s.check()
        self.s.pop()
        if r2 == z3.unsat:
            return False
        self.undecided.append(c)
        return None


def p2_reference(q, n, m, p, x, orc, div):
    """One P-square update, written from Jain & Chlamtac's description (markers 1..5 are indices 0..4 here).
    `orc` decides branch conditions for the current path; an undecided condition leaves an If-term.
    Returns (q', n', m') as z3 terms."""
    q = list(q)
    n = list(n)
    m = list(m)
    dn = [z3.RealVal(0), p / 2, p, (1 + p) / 2, z3.RealVal(1)]

    def pick(cond, a, b):
        if cond is True:
            return a
        if cond is False:
            return b
        return z3.If(cond, a, b)

    def lt(a, b):
        r = orc.lt(a, b)
        return (a < b) if r is None else r

    def le(a, b):
        r = orc.lt(b, a)
        return (a <= b) if r is None else (not r)

    def both(f1, f2):
        """conjunction of two lazily evaluated conditions (the second is not consulted when the first is false)"""
        c1 = f1()
        if c1 is False:
            return False
        c2 = f2()
        if c2 is False:
            return False
        if c1 is True:
            return c2
        if c2 is True:
            return c1
        return z3.And(c1, c2)

    def either(f1, f2):
        c1 = f1()
        if c1 is True:
            return True
        c2 = f2()
        if c2 is True:
            return True
        if c1 is False:
            return c2
        if c2 is False:
            return c1
        return z3.Or(c1, c2)

    # B.1: find the cell k with q_k <= x < q_{k+1}; a new minimum / maximum replaces the extreme marker
    below = [lt(x, q[j]) for j in range(5)]
    new_q0 = pick(below[0], x, q[0])
    new_q4 = pick(lt(q[4], x), x, q[4])
    # marker j (index j = 1..4) lies above the new observation's cell iff x < q_j, or x is a new minimum;
    # the last marker is always above (k <= 4)
    q[0], q[4] = new_q0, new_q4
    # B.2: positions of the markers above the cell grow by one; all desired positions advance
    for j in (1, 2, 3):
        n[j] = pick(below[j], n[j] + 1, n[j])
    n[4] = n[4] + 1
    for j in range(5):
        m[j] = m[j] + dn[j]
    # B.3: adjust the three interior markers in order
    for i in (1, 2, 3):
        d = m[i] - n[i]
        up = both(lambda: le(z3.RealVal(1), d), lambda: lt(z3.RealVal(1), n[i + 1] - n[i]))
        down = False if up is True else both(lambda: le(d, z3.RealVal(-1)), lambda: lt(n[i - 1] - n[i], z3.RealVal(-1)))
        move = either(lambda: up, lambda: down)
        if move is False:
            continue
        s = pick(up, z3.RealVal(1), z3.RealVal(-1))
        qp = q[i] + div(s, n[i + 1] - n[i - 1]) * (div((n[i] - n[i - 1] + s) * (q[i + 1] - q[i]), n[i + 1] - n[i])
                                                   + div((n[i + 1] - n[i] - s) * (q[i] - q[i - 1]), n[i] - n[i - 1]))
        ql_up = q[i] + div(q[i + 1] - q[i], n[i + 1] - n[i])
        ql_dn = q[i] - div(q[i - 1] - q[i], n[i - 1] - n[i])
        ql = pick(up, ql_up, ql_dn)
        inside = both(lambda: lt(q[i - 1], qp), lambda: lt(qp, q[i + 1]))
        qn = pick(inside, qp, ql)
        q[i] = pick(move, qn, q[i])
        n[i] = pick(move, n[i] + s, n[i])
    return q, n, m


def check_p2_step(W, prop):
    from . import interp as I
    q = [z3.Real("q%d" % j) for j in range(5)]
    n = [z3.Int("n%d" % j) for j in range(5)]
    m = [z3.Real("m%d" % j) for j in range(5)]
    p, x = z3.Reals("p x")
    pre = wf(q, n, m, p)
    st = mk_state(W, q, n, m, p)
    I.DIV["mode"] = "inv"
    I.DIV["axioms"] = {}
    try:
        budget0, W.m.run_budget_s = W.m.run_budget_s, 3600.0     # ~3.9k feasible paths in one call: this one legitimately takes minutes
        try:
            res = W.method("Quantile", "add", st, [F(x)], pc=pre)
        finally:
            W.m.run_budget_s = budget0
        lo = z3.If(x < q[0], x, q[0])
        hi = z3.If(x > q[4], x, q[4])
        n_paths = n_syntactic = n_solver = 0
        hard_conf, hard_inv = [], []
        for o, after in res:
            if o.kind != "return":
                W.prove("Quantile.add-step-no-panic[%s]" % o.msg, pre + [conj(o.pc[len(pre):])], False, role="%s:Quantile.add-panics" % prop,
                        note="a panicking path of add is feasible from a well-formed state: %s" % o.msg)
                continue
            n_paths += 1
            if os.environ.get("MIRSYM_VERBOSE") and n_paths % 100 == 0:
                import time as _t
                print("  [mirsym] P2 paths %d: %d by normal form, %d need solver (%s)" % (n_paths, n_syntactic, n_solver, _t.strftime("%H:%M:%S")), flush=True)
            aq, an, am, adm = get_state(W, after)
            orc = PathOracle(W.m, o.pc)
            rq, rn, rm = p2_reference(q, n, m, p, x, orc, I.real_div)
            diffs = [R(aq[j]) - rq[j] for j in range(5)] + [R(am[j]) - rm[j] for j in range(5)] + [to_real(an[j]) - rn[j] for j in range(5)]
            defined = [(aq[j].bad is False) or (orc.decide_linear(to_bool(aq[j].bad)) is False if W.m.is_linear(to_bool(aq[j].bad)) else False)
                       for j in range(5)] + [am[j].bad is False for j in range(5)]
            if not orc.undecided and all(PathOracle.zero(d) for d in diffs) and all(defined):
                n_syntactic += 1
            else:
                n_solver += 1
                eqs = [feq(aq[j], rq[j]) for j in range(5)] + [feq(am[j], rm[j]) for j in range(5)] + [to_real(an[j]) == rn[j] for j in range(5)]
                hard_conf.append((z3.Implies(conj(o.pc[len(pre):]), to_bool(b_and(*eqs))), list(orc.boundaries)))
            # invariants on this path
            pcs_lin = [to_bool(c) for c in o.pc[len(pre):] if c is not True and W.m.is_linear(to_bool(c))]
            pos = [to_real(an[0]) == 1, to_real(an[4]) == n[4] + 1] + [to_real(an[j + 1]) >= to_real(an[j]) + 1 for j in range(4)]
            ext = [R(aq[0]) == lo, R(aq[4]) == hi]
            hard_inv.append((pcs_lin, pos + ext))
        if not n_paths:
            raise Unsupported("Quantile::add has no returning path")
        axioms = list(I.DIV["axioms"].values())
        note_c = ("any well-formed marker state (count >= 5, any p in [0,1], real heights), any real x: all five heights, positions and "
                  "desired positions after add equal the P-square update re-stated from Jain & Chlamtac (cell search, position "
                  "increments, parabolic formula with strict-betweenness test, linear fallback). Per path the reference's branch "
                  "conditions are decided from the path condition (z3, linear arithmetic) and the resulting terms are compared in "
                  "polynomial normal form; %d of %d paths closed that way, %d by an explicit validity query" % (n_syntactic, n_paths, n_solver))
        # the normal-form comparison is itself a decision procedure result: record it as one obligation whose verdict is 'proved'
        # only if every path closed; paths that did not close syntactically are discharged by the solver below
        r = {"obligation": "M:Quantile.add-step conforms to P-square [%d paths by normal form]" % n_syntactic, "engine": "mirsym",
             "verdict": "proved" if n_syntactic else "inconclusive", "role": "%s:Quantile.p2-conformance" % prop, "note": note_c,
             "solver_s": 0.0, "paths": n_paths}
        if not n_syntactic:
            r["reason"] = "no path closed by normal form"
        W.results.append(r)
        rp_desc = quantile_replay(q, n, m, p, x)
        # paths that did not close: look for a replayable counterexample path by path under a budget, then report the rest
        import time as _time
        budget_end = _time.time() + (240 if W.tier == "quick" else 1800)
        saved_timeout = W.query_timeout_ms
        W.query_timeout_ms = 15000
        W.retries = 0            # a budgeted search for a counterexample: breadth over the paths matters more than persistence on one
        found = 0
        tried = 0
        # paths on which a strict test of the reference meets a non-strict atom of the implementation come first, restricted to the
        # boundary a == b where the two part ways (the general query rarely finds that measure-zero set by itself)
        order = sorted(range(len(hard_conf)), key=lambda g: 0 if hard_conf[g][1] else 1)
        for g in order:
            goal, bnds = hard_conf[g]
            if _time.time() > budget_end or found >= 2:
                break
            tried += 1
            for bnd in bnds[:2]:
                r = W.prove("Quantile.add-step conforms to P-square [solver, unclosed path %d of %d, boundary of a strict test]" % (g + 1, len(hard_conf)),
                            pre + axioms + [bnd], goal, role="%s:Quantile.p2-conformance" % prop, note=note_c, replay=rp_desc, grid_first_ms=6000)
                if r["verdict"] == "violated":
                    found += 1
                    break
                W.results[:] = [x_ for x_ in W.results if x_ is not r]       # a boundary that yields nothing is not an obligation of its own; the path is examined below
            if found >= 2:
                break
            r = W.prove("Quantile.add-step conforms to P-square [solver, unclosed path %d of %d]" % (g + 1, len(hard_conf)),
                        pre + axioms, goal, role="%s:Quantile.p2-conformance" % prop, note=note_c, replay=rp_desc, grid_first_ms=6000)
            if r["verdict"] == "violated":
                found += 1
        W.query_timeout_ms = saved_timeout
        W.retries = 2
        if hard_conf and not found:
            # the solver has not shown conformance on these paths and produced no replayable witness: let the real build speak on a
            # directed probe (short streams over a small alphabet, where exact ties occur); a mismatch there is the replay
            W.results.append({"obligation": "M:Quantile.add-step conforms to P-square [directed probe of the real build, %d paths unclosed]" % len(hard_conf),
                              "engine": "mirsym", "verdict": "violated", "role": "%s:Quantile.p2-conformance" % prop, "solver_s": 0.0,
                              "note": "not a solver verdict: streams of 6 and 7 observations over {0,1,2,3}, p in {0, 1/4, 1/2}, final marker state "
                                      "against the P-square reference; run only because the solver could not close the paths", "_replay": (probe_replay(), {})})
        if len(hard_conf) > tried:
            W.results.append({"obligation": "M:Quantile.add-step conforms to P-square [%d further unclosed paths]" % (len(hard_conf) - tried),
                              "engine": "mirsym", "verdict": "inconclusive", "role": "%s:Quantile.p2-conformance" % prop, "solver_s": 0.0,
                              "reason": "paths on which implementation and reference did not normalise to the same terms and that were not "
                                        "examined individually within the budget"})
        # positions and extreme markers are decided by linear branch conditions only: keep the linear part of each path
        # condition as antecedent (dropping conjuncts only strengthens the obligation) and stay in linear arithmetic
        lin_goals = []
        for (pcs_list, le) in hard_inv:
            lin_goals.append(z3.Implies(z3.And(*pcs_list) if pcs_list else z3.BoolVal(True), z3.And(*le)))
        G2 = 256
        for g in range(0, len(lin_goals), G2):
            W.prove("Quantile.add-step positions and extremes [paths %d-%d of %d]" % (g + 1, min(g + G2, len(lin_goals)), len(lin_goals)),
                    pre, z3.And(*lin_goals[g:g + G2]), role="%s:Quantile.positions-and-extremes" % prop, replay=rp_desc,
                    note="after add, on every execution path: first/last marker = min/max of (old extreme, x), first position 1, last position = "
                         "count, positions strictly increasing (positions are reals standing for integers with gaps in {1} U [2, inf))")
    finally:
        I.DIV["mode"] = "div"


def py_p2(q, n, m, p, x):
    """concrete P-square step in rational arithmetic (for native confirmation)"""
    from fractions import Fraction as Fr
    q, n, m = list(q), list(n), list(m)
    dn = [Fr(0), p / 2, p, (1 + p) / 2, Fr(1)]
    below = [x < q[j] for j in range(5)]
    if below[0]:
        q[0] = x
    if q[4] < x:
        q[4] = x
    for j in (1, 2, 3):
        if below[j]:
            n[j] += 1
    n[4] += 1
    for j in range(5):
        m[j] += dn[j]
    for i in (1, 2, 3):
        d = m[i] - n[i]
        up = d >= 1 and n[i + 1] - n[i] > 1
        down = d <= -1 and n[i - 1] - n[i] < -1
        if not (up or down):
            continue
        s = 1 if up else -1
        qp = q[i] + Fr(s, n[i + 1] - n[i - 1]) * ((n[i] - n[i - 1] + s) * (q[i + 1] - q[i]) / (n[i + 1] - n[i])
                                                 + (n[i + 1] - n[i] - s) * (q[i] - q[i - 1]) / (n[i] - n[i - 1]))
        if q[i - 1] < qp < q[i + 1]:
            q[i] = qp
        else:
            q[i] = q[i] + s * (q[i + s] - q[i]) / (n[i + s] - n[i])
        n[i] += s
    return q, n, m


def probe_replay():
    """Directed probe used only when paths of add did not close and the budgeted solver search produced no replayable witness:
    every stream of 6 and 7 observations over {0,1,2,3} for p in {0, 1/4, 1/2} through the real build, final marker state compared
    with the P-square reference. Streams on which the reference itself is rounding-sensitive (its run in double arithmetic, same
    operation order, differs from its run in rational arithmetic) are left out, so an exact tie is only used when it is a tie in
    doubles as well."""
    import itertools
    from fractions import Fraction as Fr
    from .replay import f2w

    def run(stream, pv, num):
        q = sorted(num(v) for v in stream[:5])
        n = [1, 2, 3, 4, 5]
        m = [num(1), 1 + 2 * pv, 1 + 4 * pv, 3 + 2 * pv, num(5)]
        for x in stream[5:]:
            q, n, m = py_p2(q, n, m, pv, num(x))
        return q, n, m

    def build(vals):
        program, expected, streams = [], [], []
        for pv in (Fr(1, 4), Fr(1, 2), Fr(0)):
            for L in (6, 7):
                for st in itertools.product((0, 1, 2, 3), repeat=L):
                    qr, nr, mr = run(st, pv, Fr)
                    qf, nf, mf = run(st, float(pv), float)
                    if nr != nf or any(abs(float(a) - b) > 1e-12 for a, b in zip(qr, qf)):
                        continue
                    program += ["new Quantile " + f2w(float(pv))] + ["add " + f2w(float(v)) for v in st] + ["dump"]
                    expected.append({"quantile": qr[2], "len": L, "_parts": [float(v) for v in qr] + nr + [float(v) for v in mr]})
                    streams.append((float(pv), st))
        return program, expected, {"scale": 1.0, "streams": len(streams)}
    return {"vars": [], "build": build}


def quantile_replay(q, n, m, p, x):
    from .replay import f2w, fr, w2f

    def build(vals):
        pv = fr(float(vals[str(p)]))
        qs = [fr(float(vals[str(v)])) for v in q]
        ns = []
        for v in n:
            nv = vals[str(v)]
            if nv.denominator != 1:
                raise ValueError("non-integral position in model")
            ns.append(int(nv))
        ms = [fr(float(vals[str(v)])) for v in m]
        xv = fr(float(vals[str(x)]))
        dm = [0.0, float(pv) / 2.0, float(pv), (1.0 + float(pv)) / 2.0, 1.0]
        words = [f2w(float(v)) for v in qs] + ["%x" % (v & 0xffffffffffffffff) for v in ns] + [f2w(float(v)) for v in ms] + [f2w(v) for v in dm]
        program = ["parts Quantile " + " ".join(words), "add " + f2w(float(xv)), "dump"]
        eq, en, em = py_p2(qs, ns, ms, pv, xv)
        exp = {"quantile": eq[2], "len": en[4], "_parts": [float(v) for v in eq] + en + [float(v) for v in em]}
        return program, [exp], {"scale": max([abs(float(v)) for v in qs] + [1.0]), "state": words}
    return {"vars": list(q) + list(n) + list(m) + [p, x], "build": build, "counts": list(n), "count_max": 16}


def init_replay(p, xs):
    """new(p), five observations, dump: the expected state is the sorted heights, positions 1..5 and the paper's desired positions/increments"""
    from .replay import f2w, fr

    def build(vals):
        pv = fr(float(vals[str(p)]))
        xv = [fr(float(vals[str(x)])) for x in xs]
        program = ["new Quantile " + f2w(float(pv))] + ["add " + f2w(float(x)) for x in xv] + ["dump"]
        srt = sorted(xv)
        exp_parts = [float(v) for v in srt] + [1, 2, 3, 4, 5] + [1.0, float(1 + 2 * pv), float(1 + 4 * pv), float(3 + 2 * pv), 5.0] \
            + [0.0, float(pv / 2), float(pv), float((1 + pv) / 2), 1.0]
        exp = {"quantile": srt[2], "len": 5, "_parts": exp_parts}
        return program, [exp], {"scale": max([abs(float(v)) for v in xv] + [1.0]), "p": float(pv), "data": [float(x) for x in xv]}
    return {"vars": [p] + list(xs), "build": build, "counts": ()}


def check_p2_init(W, prop):
    """five symbolic observations from new(p): sorted heights, positions 1..5, the paper's desired positions"""
    p = z3.Real("p")
    xs = [z3.Real("x%d" % j) for j in range(5)]
    pre = [p >= 0, p <= 1]
    v = W.call_pure("Quantile", "new", [F(p)], pc=pre)
    for x in xs:
        res = W.method("Quantile", "add", v, [F(x)], pc=pre)
        rets = [(o, a) for (o, a) in res if o.kind == "return"]
        if len(res) != 1 or len(rets) != 1:
            raise Unsupported("initial phase forked: %s" % [(o.kind, o.msg) for o, _ in res])
        pre = rets[0][0].pc       # the sort model may have added constraints
        v = rets[0][1]
    aq, an, am, adm = get_state(W, v)
    goals = [R(aq[j]) <= R(aq[j + 1]) for j in range(4)]
    goals += [to_real(an[j]) == j + 1 for j in range(5)]
    want_m = [z3.RealVal(1), 1 + 2 * p, 1 + 4 * p, 3 + 2 * p, z3.RealVal(5)]
    want_dm = [z3.RealVal(0), p / 2, p, (1 + p) / 2, z3.RealVal(1)]
    goals += [R(am[j]) == want_m[j] for j in range(5)] + [R(adm[j]) == want_dm[j] for j in range(5)]
    W.prove("Quantile.initialisation(5 symbolic observations)", list(pre), z3.And(*goals), role="%s:Quantile.p2-initialisation" % prop,
            replay=init_replay(p, xs),
            note="after the fifth observation: heights sorted (by the sort model; the real sort is decided bit-precisely by engine K), positions 1..5, "
                 "desired positions (1, 1+2p, 1+4p, 3+2p, 5) and increments (0, p/2, p, (1+p)/2, 1)")
    # quantile() reads the middle marker from then on
    res = W.method("Quantile", "quantile", v, pc=list(pre))
    gs = []
    for o, _ in res:
        gs.append(z3.Implies(conj(o.pc[len(pre):]), to_bool(feq(o.value, R(aq[2]))) if o.kind == "return" else z3.BoolVal(False)))
    W.prove("Quantile.quantile-is-middle-marker", list(pre), z3.And(*gs), role="%s:Quantile.quantile-middle-marker" % prop,
            note="with five observations quantile() returns the height of the middle marker")


def check_quantile_reads_middle(W, prop):
    q = [z3.Real("q%d" % j) for j in range(5)]
    n = [z3.Int("n%d" % j) for j in range(5)]
    m = [z3.Real("m%d" % j) for j in range(5)]
    p = z3.Real("p")
    pre = wf(q, n, m, p)
    st = mk_state(W, q, n, m, p)
    gs = []
    for o, _ in W.method("Quantile", "quantile", st, pc=pre):
        gs.append(z3.Implies(conj(o.pc[len(pre):]), to_bool(feq(o.value, q[2])) if o.kind == "return" else z3.BoolVal(False)))
    W.prove("Quantile.quantile()==middle marker (count >= 5)", pre, z3.And(*gs), role="%s:Quantile.quantile-middle-marker" % prop,
            note="for every well-formed state with count >= 5, quantile() is the middle marker height; with the invariants it lies in [min, max]")
    for meth, spec in (("len", lambda v: to_real(v) == n[4]), ("is_empty", lambda v: to_bool(v) == z3.BoolVal(False)),
                       ("p", lambda v: to_bool(feq(v, p)))):
        gs = []
        for o, _ in W.method("Quantile", meth, st, pc=pre):
            gs.append(z3.Implies(conj(o.pc[len(pre):]), spec(o.value) if o.kind == "return" else z3.BoolVal(False)))
        W.prove("Quantile.%s (count >= 5)" % meth, pre, z3.And(*gs), role="%s:Quantile.%s" % (prop, meth),
                note="len() is the last position, is_empty() false, p() the constructor argument")


class NoOracle:
    """leaves every branch condition of the reference as an If-term"""
    undecided = []

    def lt(self, a, b):
        return None


def check_reference_invariants(W, prop):
    """Properties of the P-square update itself (the reference the implementation is shown to conform to), for every
    well-formed state: heights stay ordered and quantile() = middle marker lies within [min, max]."""
    q = [z3.Real("q%d" % j) for j in range(5)]
    n = [z3.Real("n%d" % j) for j in range(5)]      # reals standing for integers: gaps are 1 or at least 2
    m = [z3.Real("m%d" % j) for j in range(5)]
    p, x = z3.Reals("p x")
    pre = wf(q, n, m, p) + [z3.Or(n[j + 1] - n[j] == 1, n[j + 1] - n[j] >= 2) for j in range(4)]
    W.query_timeout_ms = max(W.query_timeout_ms, 240000)
    rq, rn, rm = p2_reference(q, n, m, p, x, NoOracle(), lambda a, b: a / b)
    for j in range(4):
        W.prove("P-square reference: height %d <= height %d after the update" % (j + 1, j + 2), pre, rq[j] <= rq[j + 1],
                role="%s:Quantile.heights-non-decreasing" % prop,
                note="property of the P-square update that the implementation conforms to (C05 conformance): marker heights stay "
                     "non-decreasing for every well-formed state, every p and every real observation")
    W.prove("P-square reference: middle marker within [min, max]", pre, z3.And(rq[0] <= rq[2], rq[2] <= rq[4]),
            role="%s:Quantile.quantile-within-range" % prop, note="quantile() (the middle marker) lies between the extreme markers")
