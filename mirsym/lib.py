"""Query layer of engine M: run crate functions symbolically, build states through the hook constructors,
state obligations and discharge them with z3 (cvc5 / system z3 cross-check on request)."""
import math
import os
import json
import subprocess
import tempfile
import time
from fractions import Fraction

import z3

from . import world
from .interp import F, Agg, Cell, Enum, Ref, Unsupported, b_and, b_not, b_or, is_sym, to_bool, to_int, to_real

MAXN = 1 << 53


def as_real(n):
    """count -> real term (counts may be Python ints, z3 Ints or, in step queries, z3 Reals standing for integers)"""
    if not is_sym(n):
        return z3.RealVal(n)
    return n if n.sort() == z3.RealSort() else z3.ToReal(n)


def binom(n, k):
    return math.comb(n, k)


class Result(dict):
    pass


class World:
    def __init__(self, probe=False, tier="quick"):
        self.m, self.info = world.load(probe)
        self.tier = tier
        self.results = []
        self.query_timeout_ms = 60000 if tier == "quick" else 300000
        self.cross = tier == "thorough"
        self.solver_s = 0.0
        self.nqueries = 0

    # ---- calling into the crate
    def fn(self, ty, meth):
        f = self.m.resolve("%s::%s" % (ty, meth), None)
        if f is None:
            raise Unsupported("function %s::%s not found in MIR" % (ty, meth))
        return f

    def run(self, ty, meth, args, pc=(), roots=None):
        return self.m.run(self.m.start(self.fn(ty, meth), args, pc, roots))

    def call_pure(self, ty, meth, args, pc=()):
        """Call expecting exactly one feasible returning path and no panics (constructor / hook)."""
        outs = self.run(ty, meth, args, pc)
        rets = [o for o in outs if o.kind == "return"]
        if len(outs) != 1 or len(rets) != 1:
            raise Unsupported("%s::%s: expected one returning path, got %s" % (ty, meth, [(o.kind, o.msg) for o in outs]))
        return rets[0].value

    def from_parts(self, ty, parts):
        return self.call_pure(ty, "__verif_from_parts", parts)

    def parts(self, ty, value):
        c = Cell(value)
        return self.call_pure(ty, "__verif_parts", [Ref(c, ())])

    def method(self, ty, meth, selfval, extra=(), pc=(), mutable=True):
        """Run ty::meth(&[mut] self, extra...). Returns list of (outcome, self_after)."""
        cell = Cell(selfval)
        outs = self.run(ty, meth, [Ref(cell, ())] + list(extra), pc, roots={"self": cell})
        return [(o, o.state.roots["self"].v) for o in outs]

    # ---- solving
    def check(self, assumptions, goal=None, timeout_ms=None, retries=None):
        """sat-check of assumptions (goal None) or validity of assumptions => goal. Returns (verdict, model|None, secs, smt2 text|None).
        nlsat's running time varies by orders of magnitude with its random choices (measured: the same merge-step query 3 s alone, no
        answer in 600 s on a loaded machine): an 'unknown' is retried with other seeds before it is reported."""
        total = 0.0
        out = None
        if retries is None:
            retries = getattr(self, "retries", 2)
        for attempt, seed in enumerate([0, 7, 23][:1 + max(0, retries)]):
            if attempt:
                z3.set_param("smt.random_seed", seed)
                z3.set_param("nlsat.seed", seed)
            try:
                s = z3.Solver()
                s.set("timeout", timeout_ms or self.query_timeout_ms)
                for a in self.m.base:
                    s.add(a)
                for a in assumptions:
                    if a is True:
                        continue
                    s.add(to_bool(a))
                if goal is not None:
                    if goal is True:
                        return "unsat", None, 0.0, None
                    s.add(z3.Not(to_bool(goal)))
                t0 = time.time()
                r = s.check()
                dt = time.time() - t0
            finally:
                if attempt:
                    z3.set_param("smt.random_seed", 0)
                    z3.set_param("nlsat.seed", 0)
            total += dt
            self.solver_s += dt
            self.nqueries += 1
            model = s.model() if r == z3.sat else None
            text = s.to_smt2() if self.cross else None
            out = (str(r), model, total, text)
            if r != z3.unknown or goal is None:
                break
        return out

    def cross_check(self, smt2, expect):
        """Re-run an SMT-LIB query on the system z3 (4.8.12) and cvc5; 'unknown'/timeouts are tolerated, contradictions are not."""
        out = {}
        with tempfile.NamedTemporaryFile("w", suffix=".smt2", delete=False) as f:
            f.write(smt2)
            path = f.name
        try:
            for name, cmd in (("z3-4.8.12", ["/usr/bin/z3", "-T:60", path]),
                              ("cvc5", ["cvc5", "--lang", "smt2", "--tlimit=60000", path])):
                try:
                    p = subprocess.run(cmd, stdout=subprocess.PIPE, stderr=subprocess.STDOUT, text=True, timeout=90)
                    lines = [l.strip() for l in p.stdout.splitlines() if l.strip()]
                    verdict = "unknown"
                    if any("(error" in l for l in lines):
                        verdict = "error"
                    elif lines and lines[0] in ("sat", "unsat", "unknown"):
                        verdict = lines[0]
                    out[name] = verdict
                except Exception as e:
                    out[name] = "failed: %r" % (e,)
        finally:
            os.unlink(path)
        contradiction = any(v in ("sat", "unsat") and v != expect for v in out.values())
        return out, contradiction

    def model_values(self, model, vars_):
        out = {}
        for v in vars_:
            val = model.eval(v, model_completion=True)
            try:
                if z3.is_rational_value(val) or z3.is_int_value(val):
                    out[str(v)] = Fraction(val.numerator_as_long(), val.denominator_as_long()) if z3.is_rational_value(val) else Fraction(val.as_long())
                elif z3.is_algebraic_value(val):
                    ap = val.approx(30)
                    out[str(v)] = Fraction(ap.numerator_as_long(), ap.denominator_as_long())
                else:
                    out[str(v)] = Fraction(0)
            except Exception:
                out[str(v)] = Fraction(0)
        return out

    def robust_model(self, assumptions, goal, vars_, counts=(), count_max=6, timeout_ms=20000, scales=2):
        """Look for a counterexample whose inputs are small integers (counts in 0..count_max), so that it survives rounding
        when replayed in doubles; a second attempt uses the same grid scaled by 2^-60 (mutants that only bite on tiny data).
        Returns values dict or None."""
        for scale in (z3.RealVal(1), z3.RealVal(1) / (2 ** 60))[:scales]:
            extra = []
            for v in vars_:
                if any(v is c or str(v) == str(c) for c in counts):
                    extra.append(z3.Or(*[v == k for k in range(0, count_max + 1)]))
                else:
                    extra.append(z3.Or(*[v == k * scale for k in range(-6, 7)]))
            r = self.check(list(assumptions) + extra, goal, timeout_ms=timeout_ms, retries=0)
            if r[0] == "sat":
                return self.model_values(r[1], vars_)
        return None

    def prove(self, name, assumptions, goal, role=None, witness_vars=None, note="", replay=None, grid_first_ms=None):
        """One obligation: the antecedent must be satisfiable (vacuity) and antecedent => goal valid.
        grid_first_ms: look for a small-integer counterexample first (finite domain, answers quickly where the general nonlinear
        query may come back 'unknown'); a hit is a counterexample of the general query as well."""
        t0 = time.time()
        res = Result(obligation="M:" + name, engine="mirsym", note=note, role=role or name)
        if grid_first_ms and replay is not None:
            try:
                vals = self.robust_model(assumptions, goal, replay["vars"], replay.get("counts", ()), replay.get("count_max", 6),
                                         timeout_ms=grid_first_ms, scales=1)
            except Exception:
                vals = None
            if vals is not None:
                res.update(verdict="violated", robust_witness=True, wall_s=round(time.time() - t0, 3), model={k: str(v) for k, v in vals.items()})
                res["_replay"] = (replay, vals)
                self.results.append(res)
                return res
        v0 = self.check(assumptions)
        if v0[0] != "sat":
            res.update(verdict="inconclusive", reason="vacuity guard: antecedent is %s" % v0[0])
            self.results.append(res)
            return res
        v = self.check(assumptions, goal)
        res["solver_s"] = round(v0[2] + v[2], 3)
        if v[0] == "unsat":
            res["verdict"] = "proved"
            if self.cross and v[3]:
                cc, bad = self.cross_check(v[3], "unsat")
                res["cross_check"] = cc
                if bad:
                    res.update(verdict="inconclusive", reason="solvers disagree: %s" % cc)
        elif v[0] == "sat":
            res["verdict"] = "violated"
            model = v[1]
            res["model"] = {str(d): str(model[d]) for d in model.decls()
                            if not str(d).startswith(("sqrt!", "pow15!", "k!"))} if model else {}
            res["_model"] = model
            if replay is not None:
                vals = None
                try:
                    vals = self.robust_model(assumptions, goal, replay["vars"], replay.get("counts", ()), replay.get("count_max", 6))
                except Exception:
                    vals = None
                res["robust_witness"] = vals is not None
                if vals is None and model is not None:
                    vals = self.model_values(model, replay["vars"])
                res["_replay"] = (replay, vals)
        else:
            res.update(verdict="inconclusive", reason="solver answered %s (timeout %d ms)" % (v[0], self.query_timeout_ms))
        res["wall_s"] = round(time.time() - t0, 3)
        self.results.append(res)
        if os.environ.get("MIRSYM_VERBOSE"):
            print("  [mirsym] %-70s %-12s %.2fs %s" % (res["obligation"][:70], res["verdict"], res["wall_s"], res.get("reason", "")), flush=True)
        return res


# ---------------------------------------------------------------------------------------- oracles

def R(x):
    return to_real(x.r) if isinstance(x, F) else to_real(x)


def feq(f, expr):
    """float value f is defined and equals the real expression"""
    return b_and(b_not(f.bad), R(f) == to_real(expr))


def add_step_oracle(n, mu, M, x, P):
    """Exact summary after adding x to a multiset with count n, mean mu, central sums M[2..P] (dict p -> expr).
    Binomial theorem about the new mean mu' = mu + delta/(n+1)."""
    n1 = n + 1
    n1r = as_real(n1)
    nr = as_real(n)
    delta = x - mu
    mu1 = mu + delta / n1r
    s = -delta / n1r                     # old points shift by -delta/(n+1) relative to the new mean
    Mfull = {0: nr, 1: z3.RealVal(0)}
    Mfull.update(M)
    out = {}
    for p in range(2, P + 1):
        acc = z3.RealVal(0)
        for k in range(0, p + 1):
            acc = acc + binom(p, k) * Mfull[p - k] * (s ** k if k else z3.RealVal(1))
        acc = acc + (x - mu1) ** p
        out[p] = acc
    return n1, mu1, out


def merge_oracle(na, mua, Ma, nb, mub, Mb, P):
    """Exact summary of the union of two multisets (both non-empty)."""
    nar = as_real(na)
    nbr = as_real(nb)
    n = na + nb
    nr = nar + nbr
    mu = (nar * mua + nbr * mub) / nr
    da = mua - mu
    db = mub - mu
    A = {0: nar, 1: z3.RealVal(0)}
    A.update(Ma)
    B = {0: nbr, 1: z3.RealVal(0)}
    B.update(Mb)
    out = {}
    for p in range(2, P + 1):
        acc = z3.RealVal(0)
        for k in range(0, p + 1):
            acc = acc + binom(p, k) * (A[p - k] * (da ** k if k else 1) + B[p - k] * (db ** k if k else 1))
        out[p] = acc
    return n, mu, out


def definitional(xs, P):
    """count, mean and central sums of the data xs by definition"""
    k = len(xs)
    mean = sum(xs[1:], xs[0]) / k
    M = {}
    for p in range(2, P + 1):
        acc = z3.RealVal(0)
        for x in xs:
            acc = acc + (x - mean) ** p
        M[p] = acc
    return k, mean, M


# ---------------------------------------------------------------------------------------- guarded values

def gconj(cs):
    cs = [to_bool(c) for c in cs if c is not True]
    return z3.And(*cs) if cs else z3.BoolVal(True)


def g_feed(W, ty, adds, pre=(), start=None):
    """new() (or `start`) followed by add(args) for each args in `adds`, following every feasible path.
    Returns a list of (extra path conditions, final value or 'panic:<msg>')."""
    pre = list(pre)
    states = [([], W.call_pure(ty, "new", []) if start is None else start)]
    for args in adds:
        nxt = []
        for extra, v in states:
            if isinstance(v, str):
                nxt.append((extra, v))
                continue
            for o, after in W.method(ty, "add", v, list(args), pc=pre + extra):
                e2 = list(o.pc[len(pre):])
                nxt.append((e2, after if o.kind == "return" else "panic:%s" % o.msg))
        states = nxt
        if len(states) > 512:
            raise Unsupported("%s: %d guarded states after %d observations; stream obligations are only built for updates that fork a few ways" %
                              (ty, len(states), len([1 for _ in adds])))
    return states


def g_merge(W, ty, ga, gb, pre=()):
    """merge every guarded a with every guarded b; returns guarded list of merged values"""
    pre = list(pre)
    out = []
    for ea, va in ga:
        for eb, vb in gb:
            if isinstance(va, str) or isinstance(vb, str):
                out.append((ea + eb, va if isinstance(va, str) else vb))
                continue
            from .interp import clone_value
            ca, cb = Cell(clone_value(va)), Cell(clone_value(vb))
            base = pre + ea + eb
            for o in W.run(ty, "merge", [Ref(ca, ()), Ref(cb, ())], pc=base, roots={"a": ca}):
                e2 = list(o.pc[len(pre):])
                out.append((e2, o.state.roots["a"].v if o.kind == "return" else "panic:%s" % o.msg))
    return out


def g_goal(gvals, spec):
    """spec(value) must hold under every guard; a panicking path fails"""
    gs = []
    for extra, v in gvals:
        gs.append(z3.Implies(gconj(extra), z3.BoolVal(False) if isinstance(v, str) else to_bool(spec(v))))
    return z3.And(*gs) if gs else z3.BoolVal(True)
