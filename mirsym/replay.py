"""Native confirmation of engine-M counterexamples: run a scenario on the real build (replayer `scenario` mode)
and compare every dumped statistic with the exact value computed here in rational arithmetic."""
import json
import math
import os
import struct
import subprocess
from fractions import Fraction

VERIF = os.path.dirname(os.path.dirname(os.path.abspath(__file__)))
WORK = os.path.join(VERIF, ".work")

FAMILY_P = {"Mean": 1, "Variance": 2, "Skewness": 3, "Kurtosis": 4, "Moments4": 4, "M5": 5, "M6": 6, "M8": 8, "M10": 10}


def f2w(x):
    return "%016x" % struct.unpack("<Q", struct.pack("<d", float(x)))[0]


def w2f(w):
    return struct.unpack("<d", struct.pack("<Q", int(w, 16)))[0]


def fr(x):
    """exact rational of a double"""
    return Fraction(float(x))


def central_sums(xs, P):
    n = len(xs)
    mean = sum(xs, Fraction(0)) / n
    return n, mean, {p: sum(((x - mean) ** p for x in xs), Fraction(0)) for p in range(2, P + 1)}


def sqrt_f(x):
    return math.sqrt(float(x)) if x >= 0 else float("nan")


def expected_from_summary(ty, n, mu, M):
    """accessor name -> exact expected value (Fraction / float for roots / None for NaN sentinel)"""
    NANV = None
    e = {}
    if ty in FAMILY_P:
        P = FAMILY_P[ty]
        e["len"] = Fraction(n)
        e["mean"] = mu if n > 0 else NANV
        if P >= 2:
            pv = M[2] / n if n > 0 else NANV
            sv = M[2] / (n - 1) if n >= 2 else NANV
            e["sample_variance"] = sv
            if ty in ("Variance", "Skewness", "Kurtosis"):
                e["population_variance"] = pv
            vom = NANV if n == 0 else (Fraction(0) if n == 1 else sv / n)
            if ty == "Variance":
                e["variance_of_mean"] = vom
                e["error"] = NANV if vom is None else sqrt_f(vom)
                e["estimate"] = pv
            if ty in ("Skewness", "Kurtosis"):
                e["error_mean"] = NANV if vom is None else sqrt_f(vom)
        if ty == "Mean":
            e["estimate"] = e["mean"]
        if ty in ("Skewness", "Kurtosis"):
            if n == 0:
                sk = NANV
            elif M[3] == 0:
                sk = Fraction(0)
            else:
                sk = math.sqrt(n) * float(M[3]) / float(M[2]) ** 1.5 if M[2] > 0 else "skip"
            e["skewness"] = sk
            if ty == "Skewness":
                e["estimate"] = sk
        if ty == "Kurtosis":
            if n == 0:
                ku = NANV
            elif M[4] == 0:
                ku = Fraction(0)
            else:
                ku = n * M[4] / (M[2] * M[2]) - 3 if M[2] > 0 else "skip"
            e["kurtosis"] = ku
            e["estimate"] = ku
        if ty in ("Moments4", "M5", "M6", "M8", "M10"):
            e["central_moment_0"] = Fraction(1)
            e["central_moment_1"] = Fraction(0)
            for p in range(2, P + 1):
                e["central_moment_%d" % p] = M[p] / n if n > 0 else NANV
            e["standardized_moment_0"] = Fraction(n)
            e["standardized_moment_1"] = Fraction(0)
            e["standardized_moment_2"] = Fraction(1)
            if n > 0 and M[2] > 0:
                sd = math.sqrt(float(M[2] / n))
                for p in range(3, P + 1):
                    e["standardized_moment_%d" % p] = float(M[p] / n) / sd ** p
            # bias-corrected sample statistics (C10)
            if n == 0:
                e["sample_skewness"] = NANV
            elif n == 1:
                e["sample_skewness"] = Fraction(0)
            elif n == 2:
                e["sample_skewness"] = Fraction(0) if M[2] > 0 else "skip"
            elif M[2] > 0:
                m2, m3 = float(M[2] / n), float(M[3] / n)
                e["sample_skewness"] = math.sqrt(n * (n - 1.0)) / (n - 2.0) * m3 / m2 ** 1.5
            else:
                e["sample_skewness"] = "skip"
            if n < 4:
                e["sample_excess_kurtosis"] = NANV
            elif M[2] > 0:
                m2, m4 = M[2] / n, M[4] / n
                e["sample_excess_kurtosis"] = Fraction(n - 1, (n - 2) * (n - 3)) * ((n + 1) * (m4 / (m2 * m2) - 3) + 6)
            else:
                e["sample_excess_kurtosis"] = "skip"
    return e


def expected_weighted(ty, pairs):
    xs = [fr(x) for x, _ in pairs]
    ws = [fr(w) for _, w in pairs]
    n = len(pairs)
    W = sum(ws, Fraction(0))
    e = {}
    wm = sum((w * x for x, w in zip(xs, ws)), Fraction(0)) / W if W > 0 else None
    if ty == "WeightedMean":
        e["mean"] = wm
        e["sum_weights"] = W
        return e
    Q = sum((w * w for w in ws), Fraction(0))
    e["len"] = Fraction(n)
    e["weighted_mean"] = wm
    e["sum_weights"] = W
    e["sum_weights_sq"] = Q
    if n == 0:
        e["effective_len"] = Fraction(0)
        e["unweighted_mean"] = None
        e["population_variance"] = None
        e["sample_variance"] = None
        e["variance_of_weighted_mean"] = None
        e["error"] = None
        return e
    if W > 0:
        e["effective_len"] = W * W / Q
    _, mean, M = central_sums(xs, 2)
    e["unweighted_mean"] = mean
    e["population_variance"] = M[2] / n
    e["sample_variance"] = M[2] / (n - 1) if n >= 2 else None
    if W > 0 and n >= 2:
        v = M[2] / (n - 1) * Q / (W * W)
        e["variance_of_weighted_mean"] = v
        e["error"] = sqrt_f(v)
    elif W == 0:
        e["variance_of_weighted_mean"] = None
        e["error"] = None
    return e


def expected_cov(pairs):
    xs = [fr(x) for x, _ in pairs]
    ys = [fr(y) for _, y in pairs]
    n = len(pairs)
    e = {"len": Fraction(n)}
    if n == 0:
        for k in ("mean_x", "mean_y", "population_covariance", "sample_covariance", "pearson", "population_variance_x",
                  "population_variance_y", "sample_variance_x", "sample_variance_y"):
            e[k] = None
        return e
    mx = sum(xs, Fraction(0)) / n
    my = sum(ys, Fraction(0)) / n
    sxx = sum(((x - mx) ** 2 for x in xs), Fraction(0))
    syy = sum(((y - my) ** 2 for y in ys), Fraction(0))
    sxy = sum(((x - mx) * (y - my) for x, y in zip(xs, ys)), Fraction(0))
    e.update(mean_x=mx, mean_y=my, population_covariance=sxy / n, population_variance_x=sxx / n, population_variance_y=syy / n)
    if n >= 2:
        e.update(sample_covariance=sxy / (n - 1), sample_variance_x=sxx / (n - 1), sample_variance_y=syy / (n - 1))
        if sxx > 0 and syy > 0:
            e["pearson"] = float(sxy) / math.sqrt(float(sxx * syy))
    else:
        e.update(sample_covariance=None, sample_variance_x=None, sample_variance_y=None, pearson=None)
    return e


_exe = {}


def replayer_exe(profile="debug"):
    if profile in _exe:
        return _exe[profile]
    env = dict(os.environ)
    env["CARGO_NET_OFFLINE"] = "true"
    cmd = ["cargo", "build", "--offline", "--target-dir", os.path.join(WORK, "replayer-target")]
    if profile == "release":
        cmd.append("--release")
    p = subprocess.run(cmd, cwd=os.path.join(VERIF, "replayer"), env=env, stdout=subprocess.PIPE, stderr=subprocess.STDOUT, text=True)
    exe = os.path.join(WORK, "replayer-target", profile, "replayer")
    _exe[profile] = exe if p.returncode == 0 and os.path.exists(exe) else None
    return _exe[profile]


def run_scenario(program, profile="debug"):
    """program: list of lines. Returns list of dumps (dict name -> float, plus 'parts' -> list of hex words) or raises."""
    exe = replayer_exe(profile)
    if exe is None:
        raise RuntimeError("replayer build failed")
    os.makedirs(WORK, exist_ok=True)
    path = os.path.join(WORK, "scenario_%d.txt" % os.getpid())
    with open(path, "w") as f:
        f.write("\n".join(program) + "\n")
    p = subprocess.run([exe, "scenario", path], stdout=subprocess.PIPE, stderr=subprocess.PIPE, text=True, timeout=120)
    os.remove(path)
    if p.returncode != 0:
        return [{"_panic": p.stderr.strip()[-300:]}]
    dumps, cur = [], None
    for line in p.stdout.splitlines():
        if line.startswith("parts="):
            cur = {"parts": line[6:].split(",") if line[6:] else []}
        elif line == "end":
            dumps.append(cur)
            cur = None
        elif cur is not None and "=" in line:
            k, v = line.split("=")
            cur[k] = w2f(v)
    return dumps


def compare(actual, expected, rel=1e-9, scale=1.0):
    """-> list of mismatching accessor names with (actual, expected)"""
    bad = []
    for k, ev in expected.items():
        if k not in actual or k.startswith("_") or isinstance(ev, (list, str)):
            continue
        av = actual[k]
        if ev is None:
            if not math.isnan(av):
                bad.append((k, av, "NaN"))
            continue
        evf = float(ev)
        if math.isnan(av) or math.isinf(av):
            bad.append((k, av, evf))
            continue
        # relative comparison; the absolute floor follows the magnitude of the data (no fixed floor: tiny data must not hide a miss)
        floor = 1e-3 * (scale if scale >= 1.0 else scale ** 4)
        tol = rel * max(abs(evf), abs(av), floor, 1e-300)
        if abs(av - evf) > tol:
            bad.append((k, av, evf))
    return bad


def expected_cov_summary(n, mx, my, sxx, syy, sxy):
    e = {"len": Fraction(n)}
    if n == 0:
        for k in ("mean_x", "mean_y", "population_covariance", "sample_covariance", "pearson", "population_variance_x",
                  "population_variance_y", "sample_variance_x", "sample_variance_y"):
            e[k] = None
        return e
    e.update(mean_x=mx, mean_y=my, population_covariance=sxy / n, population_variance_x=sxx / n, population_variance_y=syy / n)
    if n >= 2:
        e.update(sample_covariance=sxy / (n - 1), sample_variance_x=sxx / (n - 1), sample_variance_y=syy / (n - 1))
        if sxx > 0 and syy > 0:
            e["pearson"] = float(sxy) / math.sqrt(float(sxx * syy))
    else:
        e.update(sample_covariance=None, sample_variance_x=None, sample_variance_y=None, pearson=None)
    return e


def expected_wmwe_summary(q, w, a, mu, n, m2):
    e = {"len": Fraction(n), "sum_weights": w, "sum_weights_sq": q}
    e["weighted_mean"] = a if w > 0 else None
    e["unweighted_mean"] = mu if n > 0 else None
    e["effective_len"] = Fraction(0) if n == 0 else (w * w / q if q > 0 else "skip")
    e["population_variance"] = m2 / n if n > 0 else None
    e["sample_variance"] = m2 / (n - 1) if n >= 2 else None
    if w == 0 or n < 2:
        e["variance_of_weighted_mean"] = None
        e["error"] = None
    else:
        v = m2 / (n - 1) * q / (w * w)
        e["variance_of_weighted_mean"] = v
        e["error"] = sqrt_f(v)
    return e
