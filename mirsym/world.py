"""Regenerate the MIR of /repo's current working tree (and of the probe crate) and load it into a Machine."""
import os
import shutil
import subprocess
import tempfile
import time

from . import parser
from .interp import Machine
from .models import M as MODELS

VERIF = os.path.dirname(os.path.dirname(os.path.abspath(__file__)))
WORK = os.path.join(VERIF, ".work")
RUSTFLAGS_MIR = ["-Zunpretty=mir", "-C", "overflow-checks=on", "-C", "debug-assertions=off"]


def _env():
    e = dict(os.environ)
    e["CARGO_NET_OFFLINE"] = "true"
    e["CARGO_TERM_COLOR"] = "never"
    return e


def dump_repo_mir():
    """cargo +nightly rustc -- -Zunpretty=mir on a throw-away copy of /repo (default features = libm, plus verif-hooks so
    that states are built and read through the hook functions rather than by assuming a field order)."""
    tmp = tempfile.mkdtemp(prefix="mirsym-")
    try:
        src = os.path.join(tmp, "repo")
        # MIRSYM_DEV_SRC: development aid only (try engine M on a scratch copy while /repo is busy); registered commands never set it
        shutil.copytree(os.environ.get("MIRSYM_DEV_SRC") or "/repo", src, ignore=shutil.ignore_patterns("target", ".git", "benches", "tests"))
        # benches are declared in Cargo.toml; keep the manifest valid without them
        mf = open(os.path.join(src, "Cargo.toml")).read()
        out = []
        skip = False
        for line in mf.splitlines():
            if line.strip() == "[[bench]]":
                skip = True
                continue
            if skip and (line.startswith("harness") or line.startswith("name") or not line.strip()):
                continue
            skip = False
            out.append(line)
        open(os.path.join(src, "Cargo.toml"), "w").write("\n".join(out) + "\n")
        p = subprocess.run(["cargo", "+nightly", "rustc", "--offline", "--lib", "--features", "verif-hooks",
                            "--target-dir", os.path.join(WORK, "mir-target"), "--"] + RUSTFLAGS_MIR, cwd=src, env=_env(), stdout=subprocess.PIPE, stderr=subprocess.PIPE, text=True)
        if p.returncode != 0 or "fn " not in p.stdout:
            raise RuntimeError("MIR dump of /repo failed:\n" + p.stderr[-3000:])
        return p.stdout
    finally:
        shutil.rmtree(tmp, ignore_errors=True)


def dump_probe_mir():
    src = os.path.join(VERIF, "mirprobe")
    os.utime(os.path.join(src, "src", "lib.rs"), None)
    p = subprocess.run(["cargo", "+nightly", "rustc", "--offline", "--lib", "--target-dir", os.path.join(WORK, "mirprobe-target"),
                        "--"] + RUSTFLAGS_MIR, cwd=src, env=_env(), stdout=subprocess.PIPE, stderr=subprocess.PIPE, text=True)
    if p.returncode != 0 or "fn " not in p.stdout:
        raise RuntimeError("MIR dump of mirprobe failed:\n" + p.stderr[-3000:])
    return p.stdout


_cache = {}


def load(probe=False):
    """Returns (Machine, info). The dump is regenerated once per process (i.e. on every check run)."""
    key = bool(probe)
    if key in _cache:
        funcs, consts, info = _cache[key]
    else:
        t0 = time.time()
        os.makedirs(WORK, exist_ok=True)
        text = dump_repo_mir()
        funcs, consts = parser.parse_mir(text)
        info = {"repo_mir_lines": text.count("\n"), "repo_functions": len(funcs)}
        if probe:
            t2 = dump_probe_mir()
            f2, c2 = parser.parse_mir(t2)
            info["probe_mir_lines"] = t2.count("\n")
            info["probe_functions"] = len(f2)
            funcs = dict(funcs)
            consts = dict(consts)
            funcs.update(f2)
            consts.update(c2)
        info["dump_s"] = round(time.time() - t0, 2)
        _cache[key] = (funcs, consts, info)
    return Machine(funcs, consts, MODELS), dict(info)
