"""Engine M obligations for the pair estimators: WeightedMean, WeightedMeanWithError, Covariance."""
import itertools

import z3

from .interp import F, Agg, Cell, Ref, Unsupported, b_and, b_not, b_or, clone_value, is_sym, to_bool, to_real
from .lib import MAXN, R, as_real, feq, g_feed, g_goal, g_merge, gconj
from .moments import acc_spec, compositions, is_nan, to_real_int_eq, trees
from . import rp


def conj(pc):
    return z3.And(*[to_bool(c) for c in pc]) if pc else z3.BoolVal(True)


# ------------------------------------------------------------------------------------------ WeightedMean

def wm_mk(W, wsum, avg):
    return W.from_parts("WeightedMean", [F(wsum), F(avg)])


def wm_get(W, v):
    t = W.parts("WeightedMean", v).fields
    return t[0], t[1]


def feed_pairs(W, ty, pairs, pre=()):
    return g_feed(W, ty, [[F(x), F(w)] for (x, w) in pairs], pre)


def wm_stat(W, ty, v, meth, pre=()):
    """guarded values of an accessor under the assumptions `pre`: [(path condition, value or 'panic')]"""
    out = []
    for o, _ in W.method(ty, meth, v, pc=list(pre)):
        extra = o.pc[len(pre):]
        out.append((conj(extra), o.value if o.kind == "return" else "panic"))
    return out


def gspec(gv, spec):
    """spec holds for the value on every feasible path (a panic fails)"""
    return z3.And(*[z3.Implies(c, z3.BoolVal(False) if isinstance(v, str) else to_bool(spec(v))) for c, v in gv])


def gfeq(gv, expr):
    return gspec(gv, lambda v: feq(v, expr))


def check_wm_add_step(W, prop):
    """positive running weight: add(x, w) with w >= 0 gives W+w and the exact weighted mean"""
    ws, a, x, w = z3.Reals("W A x w")
    pre = [ws > 0, w >= 0]
    st = wm_mk(W, ws, a)
    goals = []
    for o, after in W.method("WeightedMean", "add", st, [F(x), F(w)], pc=pre):
        if o.kind != "return":
            goals.append(z3.Implies(conj(o.pc), z3.BoolVal(False)))
            continue
        w1, a1 = wm_get(W, after)
        goals.append(z3.Implies(conj(o.pc), to_bool(b_and(feq(w1, ws + w), feq(a1, (ws * a + w * x) / (ws + w))))))
    W.prove("WeightedMean.add-step(W > 0)", pre, z3.And(*goals), role="%s:WeightedMean.add-step" % prop,
            note="any running weight W > 0 and weighted mean A, any real x, any weight w >= 0 (zero included): sum of weights W+w, "
                 "mean (W*A + w*x)/(W+w), no undefined operation", replay=rp.wm_state_replay(ws, a, "add", x, w))


def check_wm_merge_step(W, prop):
    wa, aa, wb, ab = z3.Reals("Wa Aa Wb Ab")
    pre = [wa >= 0, wb >= 0, z3.Implies(wa == 0, aa == 0), z3.Implies(wb == 0, ab == 0)]
    a = wm_mk(W, wa, aa)
    b = wm_mk(W, wb, ab)
    ca, cb = Cell(a), Cell(b)
    goals = []
    for o in W.run("WeightedMean", "merge", [Ref(ca, ()), Ref(cb, ())], pc=pre, roots={"a": ca, "b": cb}):
        if o.kind != "return":
            goals.append(z3.Implies(conj(o.pc), z3.BoolVal(False)))
            continue
        w1, a1 = wm_get(W, o.state.roots["a"].v)
        w2, a2 = wm_get(W, o.state.roots["b"].v)
        exp = z3.If(wb == 0, to_bool(b_and(feq(w1, wa), feq(a1, aa))),
                    z3.If(wa == 0, to_bool(b_and(feq(w1, wb), feq(a1, ab))),
                          to_bool(b_and(feq(w1, wa + wb), feq(a1, (wa * aa + wb * ab) / (wa + wb))))))
        goals.append(z3.Implies(conj(o.pc), z3.And(exp, to_bool(b_and(feq(w2, wb), feq(a2, ab))))))
    W.prove("WeightedMean.merge-step", pre, z3.And(*goals), role="%s:WeightedMean.merge-step" % prop,
            note="all total weights >= 0 (either side possibly of zero weight): pooled weight and weighted mean; argument unchanged",
            replay=rp.wm_state_replay(wa, aa, "merge", other=(wb, ab)))


def check_weighted_def_k(W, prop, ty, k, with_merge=False):
    """k symbolic (x, w) pairs from new(), every zero / positive weight pattern with positive total:
    weighted mean = sum(w x)/sum(w), sum of weights, (for the error type) sum of squares, effective_len, unweighted statistics."""
    xs = [z3.Real("x%d" % j) for j in range(k)]
    ws = [z3.Real("w%d" % j) for j in range(k)]
    mean_m = "mean" if ty == "WeightedMean" else "weighted_mean"
    for pattern in itertools.product([False, True], repeat=k):
        if not any(pattern):
            continue
        pre = [(ws[j] > 0) if pattern[j] else (ws[j] == 0) for j in range(k)]
        tag = "".join("w" if p else "0" for p in pattern)
        builds = []
        variants = []
        builds.append(("stream", feed_pairs(W, ty, list(zip(xs, ws)), pre)))
        if with_merge and k >= 2:
            for parts in (2, 3):
                if parts > k + 1:
                    continue
                for comp in compositions(k, parts):
                    leaves = [feed_pairs(W, ty, list(zip(xs[a:b], ws[a:b])), pre) for (a, b) in comp]
                    for tree in trees(0, parts):
                        def build(t):
                            if isinstance(t, int):
                                return leaves[t]
                            return g_merge(W, ty, build(t[0]), build(t[1]), pre)
                        builds.append(("chunks%s/tree%s" % (comp, tree), build(tree)))
                        variants.append((comp, tree))
        goals = []
        wsum = sum(ws[1:], ws[0])
        wx = sum([ws[j] * xs[j] for j in range(1, k)], ws[0] * xs[0])

        def spec_for(v, extra):
            S = lambda meth: wm_stat(W, ty, v, meth, list(pre) + list(extra))
            g = [gfeq(S(mean_m), wx / wsum), gfeq(S("sum_weights"), wsum)]
            if ty == "WeightedMeanWithError":
                wsq = sum([ws[j] * ws[j] for j in range(1, k)], ws[0] * ws[0])
                xsum = sum(xs[1:], xs[0])
                mean = xsum / k
                m2 = sum([(xs[j] - mean) * (xs[j] - mean) for j in range(1, k)], (xs[0] - mean) * (xs[0] - mean))
                g.append(gfeq(S("sum_weights_sq"), wsq))
                g.append(gfeq(S("effective_len"), wsum * wsum / wsq))
                g.append(gfeq(S("unweighted_mean"), mean))
                g.append(gfeq(S("population_variance"), m2 / k))
                g.append(gspec(S("len"), lambda v: to_real_int_eq(v, k)))
                if k >= 2:
                    sv = m2 / (k - 1)
                    g.append(gfeq(S("sample_variance"), sv))
                    g.append(gfeq(S("variance_of_weighted_mean"), sv * wsq / (wsum * wsum)))
            return b_and(*g)
        for label, gv in builds:
            for extra, v in gv:
                goals.append(z3.Implies(gconj(extra), z3.BoolVal(False) if isinstance(v, str) else to_bool(spec_for(v, extra))))
        W.prove("%s.def-%d[weights %s]%s" % (ty, k, tag, "(+%d merge trees)" % (len(builds) - 1) if len(builds) > 1 else ""), pre,
                z3.And(*goals), role="%s:%s.definition" % (prop, ty),
                note="%d symbolic pairs, weight pattern %s (0 = zero weight, w = positive): weighted mean = sum(w x)/sum(w) etc., "
                     "by definition%s" % (k, tag, "; also over every 2- and 3-chunk composition and merge tree" if with_merge else ""),
                replay=rp.stream_replay(ty, xs, seconds=ws, variants=variants, kind="weighted"))


def check_wmwe_accessors(W, prop):
    """accessors of WeightedMeanWithError on a symbolic state"""
    q, ws, a, mu, n, m2 = z3.Reals("Q W A mu n M2")
    pre = [n >= 0, n < MAXN, z3.Or(n == 0, n == 1, n == 2, n >= 3), m2 >= 0, ws >= 0, q >= 0,
           z3.Implies(n == 0, z3.And(mu == 0, m2 == 0, ws == 0, q == 0, a == 0)), z3.Implies(n == 1, m2 == 0),
           z3.Implies(ws > 0, q > 0), z3.Implies(ws == 0, z3.And(q == 0, a == 0))]
    st = W.from_parts("WeightedMeanWithError", [F(q), Agg([F(ws), F(a)], "tuple"), Agg([F(mu), n, F(m2)], "tuple")])
    ty = "WeightedMeanWithError"
    W._last_state = None
    RP = rp.wmwe_state_replay(q, ws, a, mu, n, m2)
    import functools
    global acc_spec
    _acc = acc_spec
    acc_spec_l = functools.partial(_acc, replay=RP)
    return _wmwe_accessors(W, prop, ty, pre, st, acc_spec_l, q, ws, a, mu, n, m2)


def _wmwe_accessors(W, prop, ty, pre, st, acc_spec, q, ws, a, mu, n, m2):
    acc_spec(W, prop, ty, "weighted_mean", pre, st, lambda v: z3.If(ws == 0, is_nan(v), to_bool(feq(v, a))),
             note="weighted mean, NaN when the total weight is zero")
    acc_spec(W, prop, ty, "sum_weights", pre, st, lambda v: to_bool(feq(v, ws)))
    acc_spec(W, prop, ty, "sum_weights_sq", pre, st, lambda v: to_bool(feq(v, q)))
    acc_spec(W, prop, ty, "len", pre, st, lambda v: to_real_int_eq(v, n))
    acc_spec(W, prop, ty, "is_empty", pre, st, lambda v: to_bool(v) == (n == 0))
    acc_spec(W, prop, ty, "unweighted_mean", pre, st, lambda v: z3.If(n == 0, is_nan(v), to_bool(feq(v, mu))))
    acc_spec(W, prop, ty, "effective_len", pre, st,
             lambda v: z3.If(n == 0, to_bool(feq(v, 0)), z3.Implies(ws > 0, to_bool(feq(v, ws * ws / q)))),
             note="effective_len = (sum w)^2 / sum w^2, 0 for the empty sample")
    acc_spec(W, prop, ty, "population_variance", pre, st, lambda v: z3.If(n == 0, is_nan(v), to_bool(feq(v, m2 / n))))
    acc_spec(W, prop, ty, "sample_variance", pre, st, lambda v: z3.If(n < 2, is_nan(v), to_bool(feq(v, m2 / (n - 1)))),
             note="unweighted sample variance = population variance * n/(n-1)")
    acc_spec(W, prop, ty, "variance_of_weighted_mean", pre, st,
             lambda v: z3.If(z3.Or(ws == 0, n < 2), is_nan(v), to_bool(feq(v, m2 / (n - 1) * q / (ws * ws)))),
             note="sample variance * sum w^2 / (sum w)^2; NaN for zero total weight")
    acc_spec(W, prop, ty, "error", pre, st,
             lambda v: z3.If(z3.Or(ws == 0, n < 2), is_nan(v),
                             z3.And(z3.Not(is_nan(v)), R(v) >= 0, R(v) * R(v) == m2 / (n - 1) * q / (ws * ws))),
             note="error() >= 0 and error()^2 = variance of the weighted mean")


def check_weighted_hull(W, prop, k):
    """C17: for weights >= 0 with positive sum the weighted mean is a convex combination; effective_len in [1, n]"""
    xs = [z3.Real("x%d" % j) for j in range(k)]
    ws = [z3.Real("w%d" % j) for j in range(k)]
    lo, hi = z3.Reals("lo hi")
    pre = [w >= 0 for w in ws] + [sum(ws[1:], ws[0]) > 0] + [z3.And(lo <= x, x <= hi) for x in xs]
    gv = feed_pairs(W, "WeightedMeanWithError", list(zip(xs, ws)), pre)
    inhull = lambda v: z3.And(z3.Not(is_nan(v)), R(v) >= lo, R(v) <= hi)
    hull_goals, el_goals = [], []
    for extra, v in gv:
        if isinstance(v, str):
            hull_goals.append(z3.Implies(gconj(extra), z3.BoolVal(False)))
            continue
        full = list(pre) + list(extra)
        wm = wm_stat(W, "WeightedMeanWithError", v, "weighted_mean", full)
        el = wm_stat(W, "WeightedMeanWithError", v, "effective_len", full)
        um = wm_stat(W, "WeightedMeanWithError", v, "unweighted_mean", full)
        hull_goals.append(z3.Implies(gconj(extra), z3.And(gspec(wm, inhull), gspec(um, inhull))))
        el_goals.append(z3.Implies(gconj(extra), gspec(el, lambda v: z3.And(z3.Not(is_nan(v)), R(v) >= 1, R(v) <= k))))
    W.prove("WeightedMeanWithError.hull-%d" % k, pre, z3.And(*hull_goals),
            role="%s:weighted-mean-within-data-range" % prop,
            note="%d symbolic pairs, weights >= 0 with positive sum: weighted and unweighted means lie in [min x, max x] (exact arithmetic)" % k)
    W.prove("WeightedMeanWithError.effective-len-range-%d" % k, pre, z3.And(*el_goals),
            role="%s:effective-len-between-one-and-len" % prop,
            note="%d symbolic weights >= 0 with positive sum: 1 <= (sum w)^2/sum w^2 <= n (exact arithmetic)" % k)


# ------------------------------------------------------------------------------------------ Covariance

def cov_mk(W, n, mx, my, sxx, syy, sxy):
    return W.from_parts("Covariance", [F(mx), F(sxx), F(my), F(syy), F(sxy), n])


def cov_get(W, v):
    t = W.parts("Covariance", v).fields
    return {"mx": t[0], "sxx": t[1], "my": t[2], "syy": t[3], "sxy": t[4], "n": t[5]}


def cov_inv(n, mx, my, sxx, syy, sxy):
    return [n >= 0, n < MAXN, z3.Or(n == 0, n == 1, n == 2, n >= 3), sxx >= 0, syy >= 0,
            z3.Implies(n == 0, z3.And(mx == 0, my == 0, sxx == 0, syy == 0, sxy == 0)),
            z3.Implies(n == 1, z3.And(sxx == 0, syy == 0, sxy == 0)),
            sxy * sxy <= sxx * syy]


def cov_eq(g, n, mx, my, sxx, syy, sxy):
    return b_and(to_real_int_eq(g["n"], n), feq(g["mx"], mx), feq(g["my"], my), feq(g["sxx"], sxx), feq(g["syy"], syy), feq(g["sxy"], sxy))


def check_cov_add_step(W, prop):
    n, mx, my, sxx, syy, sxy, x, y = z3.Reals("n mx my Sxx Syy Sxy x y")
    pre = cov_inv(n, mx, my, sxx, syy, sxy)
    st = cov_mk(W, n, mx, my, sxx, syy, sxy)
    n1 = n + 1
    dx, dy = x - mx, y - my
    exp = (n1, mx + dx / n1, my + dy / n1, sxx + dx * dx * n / n1, syy + dy * dy * n / n1, sxy + dx * dy * n / n1)
    goals = []
    for o, after in W.method("Covariance", "add", st, [F(x), F(y)], pc=pre):
        if o.kind != "return":
            goals.append(z3.Implies(conj(o.pc), z3.BoolVal(False)))
            continue
        goals.append(z3.Implies(conj(o.pc), to_bool(cov_eq(cov_get(W, after), *exp))))
    W.prove("Covariance.add-step(n symbolic)", pre, z3.And(*goals), role="%s:Covariance.add-step" % prop,
            note="every n >= 0, every real pair: means, both sums of squares and the co-moment equal the exact update "
                 "(Sxy' = Sxy + dx*dy*n/(n+1)); the x/y roles are symmetric in the oracle",
            replay=rp.cov_state_replay((n, mx, my, sxx, syy, sxy), "add", xy=(x, y)))


def check_cov_merge_step(W, prop):
    A = z3.Reals("na mxa mya Sxxa Syya Sxya")
    B = z3.Reals("nb mxb myb Sxxb Syyb Sxyb")
    pre = cov_inv(*A) + cov_inv(*B) + [A[0] + B[0] < MAXN]
    a, b = cov_mk(W, *A), cov_mk(W, *B)
    ca, cb = Cell(a), Cell(b)
    na, nb = A[0], B[0]
    n = na + nb
    dx, dy = B[1] - A[1], B[2] - A[2]
    f = na * nb / n
    exp = (n, (na * A[1] + nb * B[1]) / n, (na * A[2] + nb * B[2]) / n, A[3] + B[3] + dx * dx * f, A[4] + B[4] + dy * dy * f,
           A[5] + B[5] + dx * dy * f)
    goals = []
    for o in W.run("Covariance", "merge", [Ref(ca, ()), Ref(cb, ())], pc=pre, roots={"a": ca, "b": cb}):
        if o.kind != "return":
            goals.append(z3.Implies(conj(o.pc), z3.BoolVal(False)))
            continue
        g = cov_get(W, o.state.roots["a"].v)
        gb = cov_get(W, o.state.roots["b"].v)
        e = z3.If(nb == 0, to_bool(cov_eq(g, *A)), z3.If(na == 0, to_bool(cov_eq(g, *B)), to_bool(cov_eq(g, *exp))))
        goals.append(z3.Implies(conj(o.pc), z3.And(e, to_bool(cov_eq(gb, *B)))))
    W.prove("Covariance.merge-step(na, nb symbolic)", pre, z3.And(*goals), role="%s:Covariance.merge-step" % prop,
            note="all counts >= 0: pooled means, sums of squares and co-moment of the union; empty operands are identities; argument unchanged",
            replay=rp.cov_state_replay(A, "merge", B=B))


def cov_feed(W, pairs):
    return g_feed(W, "Covariance", [[F(x), F(y)] for (x, y) in pairs])


def check_cov_def_k(W, prop, k, with_merge=False):
    xs = [z3.Real("x%d" % j) for j in range(k)]
    ys = [z3.Real("y%d" % j) for j in range(k)]
    mx = sum(xs[1:], xs[0]) / k
    my = sum(ys[1:], ys[0]) / k
    sxx = sum([(x - mx) * (x - mx) for x in xs[1:]], (xs[0] - mx) * (xs[0] - mx))
    syy = sum([(y - my) * (y - my) for y in ys[1:]], (ys[0] - my) * (ys[0] - my))
    sxy = sum([(xs[j] - mx) * (ys[j] - my) for j in range(1, k)], (xs[0] - mx) * (ys[0] - my))
    builds = [cov_feed(W, list(zip(xs, ys)))]
    variants = []
    # x <-> y swapped ingestion must give the swapped summary with the same co-moment
    swapped = cov_feed(W, list(zip(ys, xs)))
    if with_merge:
        for parts in (2, 3):
            for comp in compositions(k, parts):
                leaves = [cov_feed(W, list(zip(xs[a:b], ys[a:b]))) for (a, b) in comp]
                for tree in trees(0, parts):
                    def build(t):
                        if isinstance(t, int):
                            return leaves[t]
                        return g_merge(W, "Covariance", build(t[0]), build(t[1]))
                    builds.append(build(tree))
                    variants.append((comp, tree))
    goals = [g_goal(gv, lambda v: cov_eq(cov_get(W, v), k, mx, my, sxx, syy, sxy)) for gv in builds]
    goals.append(g_goal(swapped, lambda v: cov_eq(cov_get(W, v), k, my, mx, syy, sxx, sxy)))
    W.prove("Covariance.def-%d%s" % (k, "(+%d merge trees)" % (len(builds) - 1) if with_merge else ""), [], z3.And(*goals),
            role="%s:Covariance.definition" % prop,
            note="%d symbolic pairs: means, sums of squares and co-moment by definition; swapping x and y swaps the x/y statistics "
                 "and keeps the co-moment%s" % (k, "; every 2- and 3-chunk composition and merge tree" if with_merge else ""),
            replay=rp.stream_replay("Covariance", xs, seconds=ys, variants=variants, kind="cov"))


def check_cov_accessors(W, prop):
    n, mx, my, sxx, syy, sxy = z3.Reals("n mx my Sxx Syy Sxy")
    pre = cov_inv(n, mx, my, sxx, syy, sxy)
    st = cov_mk(W, n, mx, my, sxx, syy, sxy)
    ty = "Covariance"
    W._last_state = None
    import functools
    _acc = acc_spec
    acc_spec_l = functools.partial(_acc, replay=rp.cov_state_replay((n, mx, my, sxx, syy, sxy)))
    return _cov_accessors(W, prop, ty, pre, st, acc_spec_l, n, mx, my, sxx, syy, sxy)


def _cov_accessors(W, prop, ty, pre, st, acc_spec, n, mx, my, sxx, syy, sxy):
    acc_spec(W, prop, ty, "len", pre, st, lambda v: to_real_int_eq(v, n))
    acc_spec(W, prop, ty, "is_empty", pre, st, lambda v: to_bool(v) == (n == 0))
    acc_spec(W, prop, ty, "mean_x", pre, st, lambda v: z3.If(n == 0, is_nan(v), to_bool(feq(v, mx))))
    acc_spec(W, prop, ty, "mean_y", pre, st, lambda v: z3.If(n == 0, is_nan(v), to_bool(feq(v, my))))
    acc_spec(W, prop, ty, "population_covariance", pre, st, lambda v: z3.If(n == 0, is_nan(v), to_bool(feq(v, sxy / n))))
    acc_spec(W, prop, ty, "sample_covariance", pre, st, lambda v: z3.If(n < 2, is_nan(v), to_bool(feq(v, sxy / (n - 1)))))
    acc_spec(W, prop, ty, "population_variance_x", pre, st, lambda v: z3.If(n == 0, is_nan(v), to_bool(feq(v, sxx / n))))
    acc_spec(W, prop, ty, "population_variance_y", pre, st, lambda v: z3.If(n == 0, is_nan(v), to_bool(feq(v, syy / n))))
    acc_spec(W, prop, ty, "sample_variance_x", pre, st, lambda v: z3.If(n < 2, is_nan(v), to_bool(feq(v, sxx / (n - 1)))))
    acc_spec(W, prop, ty, "sample_variance_y", pre, st, lambda v: z3.If(n < 2, is_nan(v), to_bool(feq(v, syy / (n - 1)))))
    s = z3.Real("s")
    acc_spec(W, prop, ty, "pearson", pre + [s >= 0, s * s == sxx * syy], st,
             lambda v: z3.If(n < 2, is_nan(v), z3.Implies(sxx * syy > 0, z3.And(z3.Not(is_nan(v)), R(v) * s == sxy, R(v) <= 1, R(v) >= -1))),
             note="pearson * sqrt(Sxx*Syy) = Sxy and |pearson| <= 1 (Cauchy-Schwarz holds for every summary of real data); NaN below two pairs")
