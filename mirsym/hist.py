"""Engine M obligations for the histogram formulas (C12 with_const_width, C13 view kernels, C17 bin-variance range)."""
import re

import z3

from .interp import F, Agg, Cell, Ref, Unsupported, b_and, is_sym, to_bool, to_real
from .lib import R, feq


def closure_of(W, struct_name):
    """the `next::{closure#0}` function of the iterator adaptor `struct_name` (IterNormalized, IterWidths, ...)"""
    for name, f in W.m.funcs.items():
        if f.name.endswith("::next") and f.params and struct_name in f.params[0][1]:
            key = f.name + "::{closure#0}"
            for n2, g in W.m.funcs.items():
                if g.name == key:
                    return g
    raise Unsupported("closure of %s not found" % struct_name)


def run1(W, fn, args, pc=()):
    outs = W.m.run(W.m.start(fn, args, list(pc)))
    return outs


def check_view_kernels(W, prop):
    a, b, c, t = z3.Reals("a b c total")
    pre = [c >= 0, t >= c, t > 0, a <= b]
    item = lambda: Agg([Agg([F(a), F(b)], "tuple"), c], "tuple")
    env = Agg([], "closure")
    specs = [
        ("IterWidths", "width is upper - lower", lambda v: feq(v, b - a), []),
        ("IterBinCenters", "center is (lower + upper)/2", lambda v: feq(v, (a + b) / 2), []),
        ("IterNormalized", "normalized bin is count/width (undefined only for a zero-width bin)",
         lambda v: z3.If(a == b, to_bool(v.bad), to_bool(feq(v, c / (b - a)))), []),
    ]
    for sname, note, spec, extra in specs:
        fn = closure_of(W, sname)
        goals = []
        for o in run1(W, fn, [env, item()], pre):
            pcs = z3.And(*[to_bool(x) for x in o.pc[len(pre):]]) if o.pc[len(pre):] else z3.BoolVal(True)
            goals.append(z3.Implies(pcs, to_bool(spec(o.value)) if o.kind == "return" else z3.BoolVal(False)))
        W.prove("%s closure: %s" % (sname, note), pre, z3.And(*goals), role="%s:%s" % (prop, sname), note=note + " for all real edges and counts")
    # variance kernels
    fn = closure_of(W, "IterVariances")
    inv = z3.Real("sum_inv")
    envv = Agg([Ref(Cell(F(inv)), ())], "closure")
    goals = []
    prev = pre + [inv * t == 1]
    for o in run1(W, fn, [envv, item()], prev):
        pcs = z3.And(*[to_bool(x) for x in o.pc[len(prev):]]) if o.pc[len(prev):] else z3.BoolVal(True)
        goals.append(z3.Implies(pcs, to_bool(feq(o.value, c * (1 - c / t))) if o.kind == "return" else z3.BoolVal(False)))
    W.prove("IterVariances closure: variance is count*(1 - count/total)", prev, z3.And(*goals), role="%s:IterVariances" % prop,
            note="with sum_inv = 1/total, for all counts 0 <= count <= total")
    mv = W.m.funcs.get("multinomial_variance") or W.m.resolve("multinomial_variance", None)
    if mv is None:
        raise Unsupported("multinomial_variance not found")
    outs = run1(W, mv, [F(c), F(inv)], prev)
    goals = [z3.Implies(z3.BoolVal(True), to_bool(feq(o.value, c * (1 - c / t))) if o.kind == "return" else z3.BoolVal(False)) for o in outs]
    W.prove("multinomial_variance(n, 1/total) = n*(1 - n/total)", prev, z3.And(*goals), role="%s:multinomial_variance" % prop,
            note="the kernel behind variance(i) and variances()")


def check_bin_variance_range(W, prop):
    c, t, inv = z3.Reals("c total sum_inv")
    prev = [c >= 0, t >= c, t > 0, inv * t == 1]
    mv = W.m.funcs.get("multinomial_variance") or W.m.resolve("multinomial_variance", None)
    if mv is None:
        raise Unsupported("multinomial_variance not found")
    outs = run1(W, mv, [F(c), F(inv)], prev)
    goals = [z3.And(z3.Not(to_bool(o.value.bad)), R(o.value) >= 0, R(o.value) * 4 <= t) if o.kind == "return" else z3.BoolVal(False) for o in outs]
    W.prove("bin variance lies in [0, total/4]", prev, z3.And(*goals), role="%s:bin-variance-in-zero-to-quarter-total" % prop,
            note="multinomial_variance(count, 1/total) for every 0 <= count <= total, total > 0 (exact arithmetic)")


def check_const_width(W, prop, tys=("Histogram",)):
    """with_const_width(start, end): edge i = start + i*(end-start)/LEN exactly, LEN+1 edges, zero counts (exact arithmetic)"""
    start, end = z3.Reals("start end")
    pre = [start < end]
    found = 0
    for name, f in list(W.m.funcs.items()):
        if not f.name.endswith("::with_const_width"):
            continue
        found += 1
        outs = W.m.run(W.m.start(f, [F(start), F(end)], list(pre)))
        goals = []
        n_edges = None
        for o in outs:
            pcs = z3.And(*[to_bool(x) for x in o.pc[len(pre):]]) if o.pc[len(pre):] else z3.BoolVal(True)
            if o.kind != "return":
                goals.append(z3.Implies(pcs, z3.BoolVal(False)))
                continue
            rng, bins = o.value.fields[0], o.value.fields[1]
            L = len(bins.fields)
            n_edges = len(rng.fields)
            g = [z3.BoolVal(n_edges == L + 1)]
            for i, e in enumerate(rng.fields):
                g.append(to_bool(feq(e, start + i * (end - start) / L)))
            for cnt in bins.fields:
                g.append(z3.BoolVal(cnt == 0) if not is_sym(cnt) else cnt == 0)
            goals.append(z3.Implies(pcs, z3.And(*g)))
        W.prove("with_const_width [%s, %s edges]" % (f.name.split("<impl")[0].rstrip(":") or "crate", n_edges), pre, z3.And(*goals),
                role="%s:const-width-edge-formula" % prop,
                note="edge i equals start + i*(end-start)/LEN in exact arithmetic (first edge = start, last = end), LEN+1 edges, zero counts; "
                     "the few-ulp floating-point accuracy is outside this claim")
    if not found:
        raise Unsupported("with_const_width not found in MIR")


def check_const_width_accuracy(W, prop, max_len=10):
    """Rounding analysis of with_const_width: every float operation carries a rigorous first-order-plus-remainder error bound
    (standard model, u = 2^-53); z3 shows that the bound of every edge is at most 8 * u * max(|start|, |end|) (<= 8 ulps of the larger
    bound). If the bound cannot be established the kernel is run natively on probe inputs (all LEN incl. 20 and 100) to look for a
    concrete edge more than 8 ulps off; without such a witness the obligation is 'unestablished' (recorded, not failing), never a violation."""
    from . import interp as I
    start, end, M = z3.Reals("start end M")
    pre = [start < end, M > 0, start <= M, -start <= M, end <= M, -end <= M]
    found = 0
    for name, f in list(W.m.funcs.items()):
        if not f.name.endswith("::with_const_width"):
            continue
        found += 1
        I.ROUND["on"] = True
        try:
            outs = W.m.run(W.m.start(f, [F(start), F(end)], list(pre)))
        finally:
            I.ROUND["on"] = False
        goals = []
        L = None
        for o in outs:
            pcs = z3.And(*[to_bool(x) for x in o.pc[len(pre):]]) if o.pc[len(pre):] else z3.BoolVal(True)
            if o.kind != "return":
                goals.append(z3.Implies(pcs, z3.BoolVal(False)))
                continue
            rng = o.value.fields[0]
            L = len(rng.fields) - 1
            g = []
            for i, e in enumerate(rng.fields):
                err = e.err if e.err is not None else z3.RealVal(0)
                g.append(to_real(err) <= 8 * to_real(I.U53) * M)
            goals.append(z3.Implies(pcs, z3.And(*g)))
        if L is None or L > max_len:
            continue
        r = W.prove("with_const_width accuracy [%s, LEN %s]" % (f.name.split("<impl")[0].rstrip(":") or "crate", L), pre, z3.And(*goals),
                    role="%s:const-width-edge-near-exact" % prop, replay=const_width_probe_replay(),
                    note="rigorous rounding-error bound of every edge <= 8 * 2^-53 * max(|start|,|end|), i.e. within 8 ulps of the larger bound, "
                         "for all finite start < end (standard model of floating-point arithmetic, no underflow)")
        if r.get("verdict") in ("violated", "inconclusive") and r.get("_replay") is not None:
            # an over-approximating analysis: without a measured miss on the real build the outcome is 'unestablished', not a failure
            r["unestablished_ok"] = True
            r.setdefault("reason", "rounding bound not established")
    if not found:
        raise Unsupported("with_const_width not found in MIR")


PROBES = [(1.0, 1.1), (1.5, 1.6), (-20.0, -18.3), (2.0, 2.2), (-1.98, -1.07), (0.0, 1e-3), (-1e30, 1e30), (1e-30, 3e-30), (3.0, 1e9 + 7.0)]


def const_width_probe_replay():
    """native witness search when the bound is not established: run with_const_width for LEN in {1,2,3,4,5,10,20,100} on probe inputs and
    compare every edge with the exact rational value; a miss of more than 8 ulps of max(|start|,|end|) confirms a violation"""
    from .replay import f2w

    def build(vals):
        program = []
        for (a, b) in PROBES:
            for L in (1, 2, 3, 4, 5, 10, 20, 100):
                program.append("const_width %d %s %s" % (L, f2w(a), f2w(b)))
        return program, None, {"mode": "const-width-probes", "probes": PROBES}
    return {"vars": [], "build": build}
