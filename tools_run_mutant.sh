#!/bin/sh
# tools_run_mutant.sh <seeded-id> <property> [tier] : apply a kept seeded change to /repo, run that property's check, undo.
# Prints the check's tail and its exit code. Never commits anything in /repo.
sid=$1; prop=$2; tier=${3:-quick}
cd /verif
test -z "$(git -C /repo status --porcelain --untracked-files=no)" || { echo "/repo is dirty, refusing"; exit 3; }
git -C /repo apply /verif/seeded/$sid/patch.diff || exit 3
./check $prop --tier $tier > /verif/.work/mut_${sid}_${prop}.out 2>&1
rc=$?
git -C /repo checkout -- .
grep -E "^VIOLATION|^KNOWN|^INCONCLUSIVE|violated|discharged" /verif/.work/mut_${sid}_${prop}.out | cut -c1-260 | head -12
echo "exit=$rc"
