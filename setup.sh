#!/bin/sh
# Offline setup after a fresh restore: pre-build the native replayer and warm one Kani
# target directory per harness crate so the first check does not pay the dependency build.
set -e
cd "$(dirname "$0")"
export CARGO_NET_OFFLINE=true
mkdir -p .work evidence replays
(cd replayer && cargo build --offline --target-dir ../.work/replayer-target >/dev/null 2>&1 && cargo build --offline --release --target-dir ../.work/replayer-target >/dev/null 2>&1) || echo "setup: replayer build failed (checks will retry)"
echo "setup done"
