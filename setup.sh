#!/bin/sh
# Offline setup after a fresh restore: pre-build the native replayers (the checks rebuild them
# incrementally against /repo's working tree on every run) and make the work directories.
set -e
cd "$(dirname "$0")"
export CARGO_NET_OFFLINE=true
mkdir -p .work evidence replays
for r in replayer replayer-serde replayer-rayon; do
  (cd $r && cargo build --offline --target-dir ../.work/$r-target >/dev/null 2>&1) || echo "setup: $r build failed (checks will retry and report)"
done
echo "setup done"
