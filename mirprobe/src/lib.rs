#![no_std]
#![allow(dead_code)]
pub mod m5 { use average::define_moments; define_moments!(M5, 5); }
pub mod m6 { use average::define_moments; define_moments!(M6, 6); }
pub mod m8 { use average::define_moments; define_moments!(M8, 8); }
pub mod m10 { use average::define_moments; define_moments!(M10, 10); }
pub mod hists {
    use average::define_histogram;
    define_histogram!(h1, 1);
    define_histogram!(h2, 2);
    define_histogram!(h3, 3);
    define_histogram!(h4, 4);
}
pub mod cat {
    use average::{concatenate, Estimate, Kurtosis, Max, Mean, Min, Quantile, Variance};
    concatenate!(CatShort, [Min, min], [Max, max], [Mean, mean]);
    concatenate!(pub CatLong, [Variance, var, mean, sample_variance, population_variance, error], [Quantile, quant, quantile],
        [Kurtosis, kurt, kurtosis, skewness]);
}
