//! replayer scenario <file>     run a stack program over the real estimators (see scenario.rs)
//! replayer harness <crate-module::harness> <values.json>
//!   runs the harness body natively on the concrete byte vectors and prints one JSON line:
//!   {"violated":bool,"roles":[..],"panic":str|null,"assume_failed":[..],"underflow":bool,"covered":[..]}
use std::panic;
mod scenario;

fn parse_vals(s: &str) -> Vec<Vec<u8>> {
    // minimal parser for [[1,2,3],[4],...]
    let mut out = Vec::new();
    let mut cur: Option<Vec<u8>> = None;
    let mut num: Option<u32> = None;
    let mut depth = 0;
    for ch in s.chars() {
        match ch {
            '[' => {
                depth += 1;
                if depth == 2 {
                    cur = Some(Vec::new());
                }
            }
            ']' => {
                if let (Some(n), Some(c)) = (num.take(), cur.as_mut()) {
                    c.push(n as u8);
                }
                if depth == 2 {
                    out.push(cur.take().unwrap());
                }
                depth -= 1;
            }
            ',' => {
                if let (Some(n), Some(c)) = (num.take(), cur.as_mut()) {
                    c.push(n as u8);
                }
            }
            d if d.is_ascii_digit() => {
                num = Some(num.unwrap_or(0) * 10 + d.to_digit(10).unwrap());
            }
            _ => {}
        }
    }
    out
}

fn esc(s: &str) -> String {
    let mut o = String::new();
    for c in s.chars() {
        match c {
            '"' => o.push_str("\\\""),
            '\\' => o.push_str("\\\\"),
            '\n' => o.push_str("\\n"),
            c if (c as u32) < 0x20 => o.push(' '),
            c => o.push(c),
        }
    }
    o
}

fn list(v: &[&'static str]) -> String {
    let items: Vec<String> = v.iter().map(|s| format!("\"{}\"", esc(s))).collect();
    format!("[{}]", items.join(","))
}

fn main() {
    let args: Vec<String> = std::env::args().collect();
    if args.len() == 3 && args[1] == "scenario" {
        scenario::run(&args[2]);
        return;
    }
    if args.len() < 4 || args[1] != "harness" {
        eprintln!("usage: replayer harness <module::name> <values.json>");
        std::process::exit(3);
    }
    let (module, name) = match args[2].split_once("::") {
        Some(x) => x,
        None => {
            eprintln!("harness must be module::name");
            std::process::exit(3);
        }
    };
    let text = std::fs::read_to_string(&args[3]).expect("read values file");
    let vals = parse_vals(&text);
    let mut body: Option<fn(&mut avk::inp::VecInp)> = None;
    for (m, hs) in avk::registry() {
        if m == module {
            for (n, f) in hs.iter() {
                if *n == name {
                    body = Some(*f);
                }
            }
        }
    }
    let body = match body {
        Some(b) => b,
        None => {
            eprintln!("unknown harness {}::{}", module, name);
            std::process::exit(3);
        }
    };
    let mut inp = avk::inp::VecInp::new(vals);
    let msg = std::sync::Arc::new(std::sync::Mutex::new(None::<String>));
    let msg2 = msg.clone();
    panic::set_hook(Box::new(move |info| {
        let loc = info.location().map(|l| format!("{}:{}", l.file(), l.line())).unwrap_or_default();
        let m = if let Some(s) = info.payload().downcast_ref::<&str>() {
            s.to_string()
        } else if let Some(s) = info.payload().downcast_ref::<String>() {
            s.clone()
        } else {
            String::new()
        };
        *msg2.lock().unwrap() = Some(format!("{} @ {}", m, loc));
    }));
    let r = panic::catch_unwind(panic::AssertUnwindSafe(|| body(&mut inp)));
    let mut panic_msg: Option<String> = None;
    if let Err(e) = r {
        if e.downcast_ref::<avk::inp::AssumeStop>().is_none() {
            panic_msg = Some(msg.lock().unwrap().clone().unwrap_or_else(|| "panic".into()));
        }
    }
    // missing values read as zero bytes: any check that fails natively under satisfied assumptions is real
    let invalid = !inp.assume_failed.is_empty();
    let violated = !invalid && (!inp.failed.is_empty() || panic_msg.is_some());
    println!(
        "{{\"violated\":{},\"roles\":{},\"panic\":{},\"assume_failed\":{},\"underflow\":{},\"covered\":{}}}",
        violated,
        list(&inp.failed),
        match &panic_msg {
            Some(m) => format!("\"{}\"", esc(m)),
            None => "null".into(),
        },
        list(&inp.assume_failed),
        inp.underflow,
        list(&inp.covered)
    );
}
