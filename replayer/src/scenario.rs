//! Scenario mode: a tiny stack program over the real estimators, used to replay engine-M counterexamples.
//!   new <Type> [p]        push a fresh estimator (Quantile takes p)
//!   parts <Type> w...     push an estimator built with the hook constructor from raw 64-bit words (hex)
//!   add a [b]             add an observation (hex f64 words) to the top of the stack
//!   merge                 pop b, pop a, a.merge(&b), push a
//!   collect_val <Type> a [b] ...   push <Type> collected from an iterator of values (pairs for pair estimators)
//!   collect_ref <Type> a [b] ...   same from an iterator of references
//!   extend_val a [b] ... / extend_ref a [b] ...   extend the top of the stack
//!   const_width L a b     print parts=[L, a, b, edges of a LEN-L histogram built by with_const_width(a, b)] (L in 1,2,3,4,5,10,20,100)
//!   dump                  print `parts=...` and every accessor of the top as name=hexbits
use average::{Covariance, Estimate, Kurtosis, Mean, Merge, Quantile, Skewness, Variance, WeightedMean, WeightedMeanWithError};
use avk::types::{M10, M4, M5, M6, M8};
use std::any::Any;

pub trait Est: Any {
    fn add2(&mut self, a: f64, b: f64);
    /// extend from values / references (pairs use both components)
    fn extend2(&mut self, items: &[(f64, f64)], by_ref: bool);
    fn merge_dyn(&mut self, other: &dyn Any);
    fn dump(&self) -> Vec<(String, f64)>;
    fn parts(&self) -> Vec<u64>;
    fn as_any(&self) -> &dyn Any;
}

fn b(x: f64) -> u64 { x.to_bits() }
fn f(w: u64) -> f64 { f64::from_bits(w) }

macro_rules! moment_family {
    ($T:ty, $from:expr, $parts:expr, [$($acc:ident),*]) => {
        impl Est for $T {
            fn add2(&mut self, a: f64, _b: f64) { self.add(a); }
            fn extend2(&mut self, items: &[(f64, f64)], by_ref: bool) {
                let xs: Vec<f64> = items.iter().map(|p| p.0).collect();
                if by_ref { self.extend(xs.iter()); } else { self.extend(xs.iter().copied()); }
            }
            fn merge_dyn(&mut self, other: &dyn Any) { self.merge(other.downcast_ref::<$T>().expect("same type")); }
            fn dump(&self) -> Vec<(String, f64)> {
                vec![("len".to_string(), self.len() as f64), $((stringify!($acc).to_string(), self.$acc())),*]
            }
            fn parts(&self) -> Vec<u64> { let p: fn(&$T) -> Vec<u64> = $parts; p(self) }
            fn as_any(&self) -> &dyn Any { self }
        }
    };
}

moment_family!(Mean, (), |s| { let p = s.__verif_parts(); vec![b(p.0), p.1] }, [mean, estimate]);
moment_family!(Variance, (), |s| { let p = s.__verif_parts(); vec![b(p.0), p.1, b(p.2)] },
    [mean, population_variance, sample_variance, variance_of_mean, error, estimate]);
moment_family!(Skewness, (), |s| { let p = s.__verif_parts(); vec![b(p.0), p.1, b(p.2), b(p.3)] },
    [mean, population_variance, sample_variance, error_mean, skewness, estimate]);
moment_family!(Kurtosis, (), |s| { let p = s.__verif_parts(); vec![b(p.0), p.1, b(p.2), b(p.3), b(p.4)] },
    [mean, population_variance, sample_variance, error_mean, skewness, kurtosis, estimate]);

macro_rules! moments_n {
    ($T:ty, $N:expr) => {
        impl Est for $T {
            fn add2(&mut self, a: f64, _b: f64) { self.add(a); }
            fn extend2(&mut self, items: &[(f64, f64)], by_ref: bool) {
                let xs: Vec<f64> = items.iter().map(|p| p.0).collect();
                if by_ref { self.extend(xs.iter()); } else { self.extend(xs.iter().copied()); }
            }
            fn merge_dyn(&mut self, other: &dyn Any) { self.merge(other.downcast_ref::<$T>().expect("same type")); }
            fn dump(&self) -> Vec<(String, f64)> {
                let mut v = vec![("len".to_string(), self.len() as f64), ("mean".to_string(), self.mean()),
                    ("sample_variance".to_string(), self.sample_variance()), ("sample_skewness".to_string(), self.sample_skewness()),
                    ("sample_excess_kurtosis".to_string(), self.sample_excess_kurtosis())];
                for p in 0..=$N { v.push((format!("central_moment_{}", p), self.central_moment(p))); }
                for p in 0..=$N {
                    let r = std::panic::catch_unwind(std::panic::AssertUnwindSafe(|| self.standardized_moment(p)));
                    if let Ok(x) = r { v.push((format!("standardized_moment_{}", p), x)); }
                }
                v
            }
            fn parts(&self) -> Vec<u64> { let p = self.__verif_parts(); let mut v = vec![p.0, b(p.1)]; for x in p.2.iter() { v.push(b(*x)); } v }
            fn as_any(&self) -> &dyn Any { self }
        }
    };
}
moments_n!(M4, 4);
moments_n!(M5, 5);
moments_n!(M6, 6);
moments_n!(M8, 8);
moments_n!(M10, 10);

impl Est for WeightedMean {
    fn add2(&mut self, a: f64, w: f64) { self.add(a, w); }
    fn extend2(&mut self, items: &[(f64, f64)], by_ref: bool) {
        if by_ref { self.extend(items.iter()); } else { self.extend(items.iter().copied()); }
    }
    fn merge_dyn(&mut self, other: &dyn Any) { self.merge(other.downcast_ref::<WeightedMean>().expect("same type")); }
    fn dump(&self) -> Vec<(String, f64)> { vec![("mean".into(), self.mean()), ("sum_weights".into(), self.sum_weights())] }
    fn parts(&self) -> Vec<u64> { let p = self.__verif_parts(); vec![b(p.0), b(p.1)] }
    fn as_any(&self) -> &dyn Any { self }
}
impl Est for WeightedMeanWithError {
    fn add2(&mut self, a: f64, w: f64) { self.add(a, w); }
    fn extend2(&mut self, items: &[(f64, f64)], by_ref: bool) {
        if by_ref { self.extend(items.iter()); } else { self.extend(items.iter().copied()); }
    }
    fn merge_dyn(&mut self, other: &dyn Any) { self.merge(other.downcast_ref::<WeightedMeanWithError>().expect("same type")); }
    fn dump(&self) -> Vec<(String, f64)> {
        vec![("len".into(), self.len() as f64), ("weighted_mean".into(), self.weighted_mean()), ("unweighted_mean".into(), self.unweighted_mean()),
             ("sum_weights".into(), self.sum_weights()), ("sum_weights_sq".into(), self.sum_weights_sq()), ("effective_len".into(), self.effective_len()),
             ("population_variance".into(), self.population_variance()), ("sample_variance".into(), self.sample_variance()),
             ("variance_of_weighted_mean".into(), self.variance_of_weighted_mean()), ("error".into(), self.error())]
    }
    fn parts(&self) -> Vec<u64> { let p = self.__verif_parts(); vec![b(p.0), b((p.1).0), b((p.1).1), b((p.2).0), (p.2).1, b((p.2).2)] }
    fn as_any(&self) -> &dyn Any { self }
}
impl Est for Covariance {
    fn add2(&mut self, a: f64, y: f64) { self.add(a, y); }
    fn extend2(&mut self, items: &[(f64, f64)], by_ref: bool) {
        if by_ref { self.extend(items.iter()); } else { self.extend(items.iter().copied()); }
    }
    fn merge_dyn(&mut self, other: &dyn Any) { self.merge(other.downcast_ref::<Covariance>().expect("same type")); }
    fn dump(&self) -> Vec<(String, f64)> {
        vec![("len".into(), self.len() as f64), ("mean_x".into(), self.mean_x()), ("mean_y".into(), self.mean_y()),
             ("population_covariance".into(), self.population_covariance()), ("sample_covariance".into(), self.sample_covariance()),
             ("pearson".into(), self.pearson()), ("population_variance_x".into(), self.population_variance_x()),
             ("population_variance_y".into(), self.population_variance_y()), ("sample_variance_x".into(), self.sample_variance_x()),
             ("sample_variance_y".into(), self.sample_variance_y())]
    }
    fn parts(&self) -> Vec<u64> { let p = self.__verif_parts(); vec![b(p.0), b(p.1), b(p.2), b(p.3), b(p.4), p.5] }
    fn as_any(&self) -> &dyn Any { self }
}
impl Est for Quantile {
    fn add2(&mut self, a: f64, _w: f64) { self.add(a); }
    fn extend2(&mut self, items: &[(f64, f64)], _by_ref: bool) { for p in items { self.add(p.0); } }
    fn merge_dyn(&mut self, _other: &dyn Any) { panic!("Quantile has no merge"); }
    fn dump(&self) -> Vec<(String, f64)> { vec![("len".into(), self.len() as f64), ("quantile".into(), self.quantile()), ("p".into(), self.p())] }
    fn parts(&self) -> Vec<u64> {
        let p = self.__verif_parts();
        let mut v = Vec::new();
        for x in p.0.iter() { v.push(b(*x)); }
        for x in p.1.iter() { v.push(*x as u64); }
        for x in p.2.iter() { v.push(b(*x)); }
        for x in p.3.iter() { v.push(b(*x)); }
        v
    }
    fn as_any(&self) -> &dyn Any { self }
}

fn make_new(ty: &str, p: Option<f64>) -> Box<dyn Est> {
    match ty {
        "Mean" => Box::new(Mean::new()),
        "Variance" => Box::new(Variance::new()),
        "Skewness" => Box::new(Skewness::new()),
        "Kurtosis" => Box::new(Kurtosis::new()),
        "Moments4" => Box::new(M4::new()),
        "M5" => Box::new(M5::new()),
        "M6" => Box::new(M6::new()),
        "M8" => Box::new(M8::new()),
        "M10" => Box::new(M10::new()),
        "WeightedMean" => Box::new(WeightedMean::new()),
        "WeightedMeanWithError" => Box::new(WeightedMeanWithError::new()),
        "Covariance" => Box::new(Covariance::new()),
        "Quantile" => Box::new(Quantile::new(p.unwrap_or(0.5))),
        _ => panic!("unknown type {}", ty),
    }
}

fn arr<const N: usize>(w: &[u64]) -> [f64; N] {
    let mut a = [0.0; N];
    for j in 0..N { a[j] = f(w[j]); }
    a
}

fn make_parts(ty: &str, w: &[u64]) -> Box<dyn Est> {
    match ty {
        "Mean" => Box::new(Mean::__verif_from_parts(f(w[0]), w[1])),
        "Variance" => Box::new(Variance::__verif_from_parts(f(w[0]), w[1], f(w[2]))),
        "Skewness" => Box::new(Skewness::__verif_from_parts(f(w[0]), w[1], f(w[2]), f(w[3]))),
        "Kurtosis" => Box::new(Kurtosis::__verif_from_parts(f(w[0]), w[1], f(w[2]), f(w[3]), f(w[4]))),
        "Moments4" => Box::new(M4::__verif_from_parts(w[0], f(w[1]), arr::<3>(&w[2..]))),
        "M5" => Box::new(M5::__verif_from_parts(w[0], f(w[1]), arr::<4>(&w[2..]))),
        "M6" => Box::new(M6::__verif_from_parts(w[0], f(w[1]), arr::<5>(&w[2..]))),
        "M8" => Box::new(M8::__verif_from_parts(w[0], f(w[1]), arr::<7>(&w[2..]))),
        "M10" => Box::new(M10::__verif_from_parts(w[0], f(w[1]), arr::<9>(&w[2..]))),
        "WeightedMean" => Box::new(WeightedMean::__verif_from_parts(f(w[0]), f(w[1]))),
        "WeightedMeanWithError" => Box::new(WeightedMeanWithError::__verif_from_parts(f(w[0]), (f(w[1]), f(w[2])), (f(w[3]), w[4], f(w[5])))),
        "Covariance" => Box::new(Covariance::__verif_from_parts(f(w[0]), f(w[1]), f(w[2]), f(w[3]), f(w[4]), w[5])),
        "Quantile" => {
            let mut n = [0i64; 5];
            for j in 0..5 { n[j] = w[5 + j] as i64; }
            Box::new(Quantile::__verif_from_parts(arr::<5>(&w[0..]), n, arr::<5>(&w[10..]), arr::<5>(&w[15..])))
        }
        _ => panic!("unknown type {}", ty),
    }
}

fn is_pair(ty: &str) -> bool { matches!(ty, "WeightedMean" | "WeightedMeanWithError" | "Covariance") }

fn items(words: &[&str], pair: bool) -> Vec<(f64, f64)> {
    let v: Vec<f64> = words.iter().map(|w| f(hex(w))).collect();
    if pair { v.chunks(2).map(|c| (c[0], c[1])).collect() } else { v.iter().map(|x| (*x, 0.0)).collect() }
}

fn collect(ty: &str, it: &[(f64, f64)], by_ref: bool) -> Box<dyn Est> {
    let xs: Vec<f64> = it.iter().map(|p| p.0).collect();
    macro_rules! single { ($T:ty) => { if by_ref { Box::new(xs.iter().collect::<$T>()) } else { Box::new(xs.iter().copied().collect::<$T>()) } }; }
    macro_rules! pair { ($T:ty) => { if by_ref { Box::new(it.iter().collect::<$T>()) } else { Box::new(it.iter().copied().collect::<$T>()) } }; }
    match ty {
        "Mean" => single!(Mean),
        "Variance" => single!(Variance),
        "Skewness" => single!(Skewness),
        "Kurtosis" => single!(Kurtosis),
        "Moments4" => single!(M4),
        "M5" => single!(M5),
        "M6" => single!(M6),
        "WeightedMean" => pair!(WeightedMean),
        "WeightedMeanWithError" => pair!(WeightedMeanWithError),
        "Covariance" => pair!(Covariance),
        _ => panic!("collect: unknown type {}", ty),
    }
}

mod hl {
    use average::define_histogram;
    define_histogram!(h20, 20);
    define_histogram!(h100, 100);
    pub type H20 = h20::Histogram;
    pub type H100 = h100::Histogram;
}

fn const_width(l: usize, a: f64, bb: f64) -> Vec<u64> {
    use avk::hists::*;
    let edges: Vec<f64> = match l {
        1 => H1::with_const_width(a, bb).ranges().to_vec(),
        2 => H2::with_const_width(a, bb).ranges().to_vec(),
        3 => H3::with_const_width(a, bb).ranges().to_vec(),
        4 => H4::with_const_width(a, bb).ranges().to_vec(),
        5 => H5::with_const_width(a, bb).ranges().to_vec(),
        10 => H10::with_const_width(a, bb).ranges().to_vec(),
        20 => hl::H20::with_const_width(a, bb).ranges().to_vec(),
        100 => hl::H100::with_const_width(a, bb).ranges().to_vec(),
        _ => panic!("const_width: unsupported LEN {}", l),
    };
    let mut v = vec![l as u64, b(a), b(bb)];
    v.extend(edges.iter().map(|x| b(*x)));
    v
}

fn hex(s: &str) -> u64 { u64::from_str_radix(s.trim_start_matches("0x"), 16).expect("hex word") }

pub fn run(path: &str) {
    let text = std::fs::read_to_string(path).expect("read scenario");
    let mut stack: Vec<Box<dyn Est>> = Vec::new();
    let mut types: Vec<String> = Vec::new();
    for line in text.lines() {
        let t: Vec<&str> = line.split_whitespace().collect();
        if t.is_empty() || t[0].starts_with('#') { continue; }
        match t[0] {
            "new" => { stack.push(make_new(t[1], t.get(2).map(|s| f(hex(s))))); types.push(t[1].to_string()); }
            "parts" => { let w: Vec<u64> = t[2..].iter().map(|s| hex(s)).collect(); stack.push(make_parts(t[1], &w)); types.push(t[1].to_string()); }
            "add" => {
                let a = f(hex(t[1]));
                let bb = t.get(2).map(|s| f(hex(s))).unwrap_or(0.0);
                stack.last_mut().expect("stack").add2(a, bb);
            }
            "const_width" => {
                let l: usize = t[1].parse().expect("LEN");
                let p: Vec<String> = const_width(l, f(hex(t[2])), f(hex(t[3]))).iter().map(|w| format!("{:016x}", w)).collect();
                println!("parts={}", p.join(","));
                println!("end");
            }
            "collect_val" | "collect_ref" => {
                let it = items(&t[2..], is_pair(t[1]));
                stack.push(collect(t[1], &it, t[0] == "collect_ref"));
                types.push(t[1].to_string());
            }
            "extend_val" | "extend_ref" => {
                let pair = is_pair(types.last().expect("stack"));
                let it = items(&t[1..], pair);
                stack.last_mut().expect("stack").extend2(&it, t[0] == "extend_ref");
            }
            "merge" => {
                types.pop();
                let bb = stack.pop().expect("stack");
                let a = stack.last_mut().expect("stack");
                a.merge_dyn(bb.as_any());
            }
            "dump" => {
                let top = stack.last().expect("stack");
                let p: Vec<String> = top.parts().iter().map(|w| format!("{:016x}", w)).collect();
                println!("parts={}", p.join(","));
                for (k, v) in top.dump() { println!("{}={:016x}", k, v.to_bits()); }
                println!("end");
            }
            other => panic!("unknown op {}", other),
        }
    }
}
