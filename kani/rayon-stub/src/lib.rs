//! rayon's documented contract for `fold` / `reduce`:
//!  * `fold(identity, op)` splits the input into contiguous, possibly empty pieces (in an unspecified way) and folds each
//!    piece sequentially starting from a fresh `identity()`;
//!  * `reduce(identity, op)` combines the results with `op` in an unspecified bracketing that preserves their order, and
//!    may combine with `identity()` on either side any number of times.
//! Here every one of those choices is taken from `SCHEDULE`.
pub mod iter {
    /// Choices of one execution: [cut1, cut2, bracketing, identity-insertion bits, ...]; filled by the harness.
    pub static mut SCHEDULE: [u8; 8] = [0; 8];

    fn sched(k: usize) -> u8 {
        unsafe { SCHEDULE[k] }
    }

    pub const MAXN: usize = 4;
    pub const PIECES: usize = 3;

    /// A bounded "parallel iterator" over up to MAXN items.
    pub struct ArrayPar<T> {
        pub items: [Option<T>; MAXN],
        pub len: usize,
    }

    impl<T> ArrayPar<T> {
        pub fn new(items: [Option<T>; MAXN], len: usize) -> Self {
            ArrayPar { items, len }
        }
    }

    pub trait ParallelIterator: Sized {
        type Item;
        /// hand out the items in order
        fn into_items(self) -> ([Option<Self::Item>; MAXN], usize);

        fn fold<T, ID, F>(self, identity: ID, fold_op: F) -> Folded<T>
        where
            ID: Fn() -> T,
            F: Fn(T, Self::Item) -> T,
        {
            let (mut items, len) = self.into_items();
            // contiguous pieces [0, c1), [c1, c2), [c2, len), any of them possibly empty
            let mut c1 = sched(0) as usize;
            let mut c2 = sched(1) as usize;
            if c2 > len { c2 = len; }
            if c1 > c2 { c1 = c2; }
            let mut acc: [Option<T>; PIECES] = [Some(identity()), Some(identity()), Some(identity())];
            let mut j = 0;
            while j < MAXN {
                if j < len {
                    let piece = if j < c1 { 0 } else if j < c2 { 1 } else { 2 };
                    if let Some(x) = items[j].take() {
                        let cur = acc[piece].take().unwrap();
                        acc[piece] = Some(fold_op(cur, x));
                    }
                }
                j += 1;
            }
            Folded { pieces: acc }
        }

        fn collect<C>(self) -> C
        where
            C: FromParallelIterator<Self::Item>,
        {
            C::from_par_iter(self)
        }
    }

    impl<T> ParallelIterator for ArrayPar<T> {
        type Item = T;
        fn into_items(self) -> ([Option<T>; MAXN], usize) {
            (self.items, self.len)
        }
    }

    /// Result of `fold`: one value per piece, in order.
    pub struct Folded<T> {
        pub pieces: [Option<T>; PIECES],
    }

    impl<T> Folded<T> {
        pub fn reduce<OP, ID>(mut self, identity: ID, op: OP) -> T
        where
            OP: Fn(T, T) -> T,
            ID: Fn() -> T,
        {
            let wrap = |v: T, bits: u8| -> T {
                // optionally combine with a fresh identity on the left and / or on the right
                let v = if bits & 1 != 0 { op(identity(), v) } else { v };
                if bits & 2 != 0 { op(v, identity()) } else { v }
            };
            let p0 = wrap(self.pieces[0].take().unwrap(), sched(3));
            let p1 = wrap(self.pieces[1].take().unwrap(), sched(4));
            let p2 = wrap(self.pieces[2].take().unwrap(), sched(5));
            let r = if sched(2) & 1 == 0 {
                op(wrap(op(p0, p1), sched(6)), p2)
            } else {
                op(p0, wrap(op(p1, p2), sched(6)))
            };
            wrap(r, sched(7))
        }
    }

    pub trait IntoParallelIterator {
        type Iter: ParallelIterator<Item = Self::Item>;
        type Item;
        fn into_par_iter(self) -> Self::Iter;
    }

    impl<T: ParallelIterator> IntoParallelIterator for T {
        type Iter = T;
        type Item = T::Item;
        fn into_par_iter(self) -> T {
            self
        }
    }

    pub trait FromParallelIterator<T>: Sized {
        fn from_par_iter<I>(par_iter: I) -> Self
        where
            I: IntoParallelIterator<Item = T>;
    }
}

pub mod prelude {
    pub use crate::iter::{FromParallelIterator, IntoParallelIterator, ParallelIterator};
}
