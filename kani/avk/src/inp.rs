//! Input abstraction shared by the Kani proofs and the native replayer.
//!
//! Under `cfg(kani)` every primitive comes from `kani::any()`; natively the
//! same harness body reads the concrete byte vectors that Kani's concrete
//! playback printed, in the same order, and records which check failed.

pub trait Inp {
    fn f64(&mut self) -> f64;
    fn u64(&mut self) -> u64;
    fn i64(&mut self) -> i64;
    fn u8(&mut self) -> u8;
    fn i8(&mut self) -> i8;
    fn i16(&mut self) -> i16;
    fn u32(&mut self) -> u32;
    fn usize(&mut self) -> usize;
    fn bool(&mut self) -> bool;
    /// native only: record a failed check (role) / failed assumption
    fn fail(&mut self, _role: &'static str) {}
    fn assume_failed(&mut self, _what: &'static str) {}
    fn covered(&mut self, _what: &'static str) {}
}

#[cfg(kani)]
pub struct KaniInp;

#[cfg(kani)]
impl Inp for KaniInp {
    fn f64(&mut self) -> f64 { kani::any() }
    fn u64(&mut self) -> u64 { kani::any() }
    fn i64(&mut self) -> i64 { kani::any() }
    fn u8(&mut self) -> u8 { kani::any() }
    fn i8(&mut self) -> i8 { kani::any() }
    fn i16(&mut self) -> i16 { kani::any() }
    fn u32(&mut self) -> u32 { kani::any() }
    fn usize(&mut self) -> usize { kani::any() }
    fn bool(&mut self) -> bool { kani::any() }
}

/// Native input: a queue of little-endian byte vectors, one per primitive.
pub struct VecInp {
    pub vals: std::collections::VecDeque<Vec<u8>>,
    pub failed: Vec<&'static str>,
    pub assume_failed: Vec<&'static str>,
    pub covered: Vec<&'static str>,
    pub underflow: bool,
}

impl VecInp {
    pub fn new(vals: Vec<Vec<u8>>) -> Self {
        VecInp { vals: vals.into(), failed: vec![], assume_failed: vec![], covered: vec![], underflow: false }
    }
    fn take<const N: usize>(&mut self) -> [u8; N] {
        let mut out = [0u8; N];
        match self.vals.pop_front() {
            Some(v) if v.len() == N => out.copy_from_slice(&v),
            _ => self.underflow = true,
        }
        out
    }
}

impl Inp for VecInp {
    fn f64(&mut self) -> f64 { f64::from_le_bytes(self.take::<8>()) }
    fn u64(&mut self) -> u64 { u64::from_le_bytes(self.take::<8>()) }
    fn i64(&mut self) -> i64 { i64::from_le_bytes(self.take::<8>()) }
    fn u8(&mut self) -> u8 { self.take::<1>()[0] }
    fn i8(&mut self) -> i8 { self.take::<1>()[0] as i8 }
    fn i16(&mut self) -> i16 { i16::from_le_bytes(self.take::<2>()) }
    fn u32(&mut self) -> u32 { u32::from_le_bytes(self.take::<4>()) }
    fn usize(&mut self) -> usize { u64::from_le_bytes(self.take::<8>()) as usize }
    fn bool(&mut self) -> bool { self.take::<1>()[0] & 1 == 1 }
    fn fail(&mut self, role: &'static str) { self.failed.push(role) }
    fn assume_failed(&mut self, what: &'static str) { self.assume_failed.push(what) }
    fn covered(&mut self, what: &'static str) { self.covered.push(what) }
}

/// Marker payload used natively to stop a path whose assumption is false.
pub struct AssumeStop;

/// check: Kani assertion with the role as its message; natively records the role.
#[macro_export]
macro_rules! vassert {
    ($i:expr, $c:expr, $role:literal) => {{
        let __c: bool = $c;
        #[cfg(kani)]
        {
            let _ = &$i;
            assert!(__c, $role);
        }
        #[cfg(not(kani))]
        {
            if !__c {
                $crate::inp::Inp::fail($i, $role);
            }
        }
    }};
}

/// assume: constrains the symbolic inputs; natively a false assumption marks
/// the replay invalid and stops the path.
#[macro_export]
macro_rules! vassume {
    ($i:expr, $c:expr) => {{
        let __c: bool = $c;
        #[cfg(kani)]
        {
            let _ = &$i;
            kani::assume(__c);
        }
        #[cfg(not(kani))]
        {
            if !__c {
                $crate::inp::Inp::assume_failed($i, stringify!($c));
                std::panic::panic_any($crate::inp::AssumeStop);
            }
        }
    }};
}

/// cover: reachability witness (vacuity guard).
#[macro_export]
macro_rules! vcover {
    ($i:expr, $c:expr, $what:literal) => {{
        let __c: bool = $c;
        #[cfg(kani)]
        {
            let _ = &$i;
            kani::cover!(__c, $what);
        }
        #[cfg(not(kani))]
        {
            if __c {
                $crate::inp::Inp::covered($i, $what);
            }
        }
    }};
}

/// Declare harnesses: each becomes `mod name { fn body<I: Inp>(..); #[kani::proof] fn proof() }`
/// and an entry of this module's `HARNESSES` table used by the native replayer.
#[macro_export]
macro_rules! harnesses {
    ($( $(#[$m:meta])* fn $name:ident [$u:expr] ($i:ident) $body:block )*) => {
        $(
            pub mod $name {
                #[allow(unused_imports)]
                use super::*;
                #[allow(unused_variables, unused_mut)]
                pub fn body<I: $crate::inp::Inp>($i: &mut I) {
                    $body
                    $crate::vcover!($i, true, "end-reached");
                }
                #[cfg(kani)]
                #[kani::proof]
                #[kani::unwind($u)]
                $(#[$m])*
                pub fn proof() {
                    body(&mut $crate::inp::KaniInp);
                }
            }
        )*
        pub const HARNESSES: &[(&str, fn(&mut $crate::inp::VecInp))] = &[
            $( (stringify!($name), $name::body::<$crate::inp::VecInp>) ),*
        ];
    };
}

/// A statement that must not be reachable (e.g. the one after a mandated panic).
/// Under Kani: a cover that the driver requires to be unsatisfiable; natively: a failed check.
/// The role literal must start with "must-be-unreachable:".
#[macro_export]
macro_rules! vunreachable {
    ($i:expr, $role:literal) => {{
        #[cfg(kani)]
        {
            let _ = &$i;
            kani::cover!(true, $role);
        }
        #[cfg(not(kani))]
        {
            $crate::inp::Inp::fail($i, $role);
        }
    }};
}
