//! C13 — histogram merge, +=, *=, reset and views are exact bin-wise operations.
use crate::hists::*;
use crate::inp::Inp;
use crate::util::beq;
use average::{Histogram as _, Merge};

/// symbolic valid edge vector (no NaN, non-decreasing; infinities and repeats allowed)
macro_rules! edges {
    ($i:ident, $LEN:expr) => {{
        let mut e = [0.0f64; $LEN + 1];
        for j in 0..=$LEN { e[j] = $i.f64(); vassume!($i, !e[j].is_nan()); }
        for j in 0..$LEN { vassume!($i, e[j] <= e[j + 1]); }
        e
    }};
}
macro_rules! counts {
    ($i:ident, $LEN:expr, $max:expr) => {{
        let mut c = [0u64; $LEN];
        for j in 0..$LEN { c[j] = $i.u64(); vassume!($i, c[j] <= $max); }
        c
    }};
}

macro_rules! same_edges_body {
    ($i:ident, $H:ty, $LEN:expr) => {{
        const LEN: usize = $LEN;
        let e = edges!($i, LEN);
        let ca = counts!($i, LEN, 1u64 << 61);
        let cb = counts!($i, LEN, 1u64 << 61);
        let cc = counts!($i, LEN, 1u64 << 61);
        let a = <$H>::__verif_from_parts(e, ca);
        let b = <$H>::__verif_from_parts(e, cb);
        let c = <$H>::__verif_from_parts(e, cc);
        let mut m = a.clone(); m.merge(&b);
        let mut p = a.clone(); p += &b;
        let mut q = b.clone(); q.merge(&a);
        let mut q2 = b.clone(); q2 += &a;
        let (me, mc) = m.__verif_parts();
        let (pe, pc) = p.__verif_parts();
        let (_, qc) = q.__verif_parts();
        let (_, q2c) = q2.__verif_parts();
        let (be, bc) = b.__verif_parts();
        for j in 0..LEN {
            vassert!($i, mc[j] == ca[j] + cb[j], "C13:merge-is-binwise-sum");
            vassert!($i, pc[j] == ca[j] + cb[j], "C13:add-assign-is-binwise-sum");
            vassert!($i, qc[j] == mc[j] && q2c[j] == mc[j], "C13:merge-commutes");
            vassert!($i, bc[j] == cb[j], "C13:merge-leaves-argument");
        }
        for j in 0..=LEN {
            vassert!($i, beq(me[j], e[j]) && beq(pe[j], e[j]) && beq(be[j], e[j]), "C13:merge-keeps-edges");
        }
        // associativity: (a+b)+c == a+(b+c), by merge and by +=
        let mut l = m.clone(); l.merge(&c);
        let mut r0 = b.clone(); r0 += &c;
        let mut r = a.clone(); r.merge(&r0);
        for j in 0..LEN {
            vassert!($i, l.bins()[j] == r.bins()[j] && l.bins()[j] == ca[j] + cb[j] + cc[j], "C13:merge-associates");
        }
        vcover!($i, e[0] == e[1] && ca[0] > 0 && cb[LEN - 1] > 0, "repeated-edge-nonzero-counts");
    }};
}

macro_rules! scale_reset_body {
    ($i:ident, $H:ty, $LEN:expr) => {{
        const LEN: usize = $LEN;
        let e = edges!($i, LEN);
        let ca = counts!($i, LEN, 0xffff_ffffu64);
        let k = $i.u64();
        vassume!($i, k <= 0xffff_ffffu64);
        let mut a = <$H>::__verif_from_parts(e, ca);
        a *= k;
        let (ae, ac) = a.__verif_parts();
        for j in 0..LEN { vassert!($i, ac[j] == ca[j] * k, "C13:mul-assign-scales-every-count"); }
        for j in 0..=LEN { vassert!($i, beq(ae[j], e[j]), "C13:mul-assign-keeps-edges"); }
        a.reset();
        let (re, rc) = a.__verif_parts();
        for j in 0..LEN { vassert!($i, rc[j] == 0, "C13:reset-zeroes-counts"); }
        for j in 0..=LEN { vassert!($i, beq(re[j], e[j]), "C13:reset-keeps-edges"); }
        // usable again after reset
        let x = $i.f64();
        let f = a.find(x);
        let ok = a.add(x).is_ok();
        vassert!($i, ok == f.is_ok(), "C13:usable-after-reset");
        let mut total = 0u64;
        for j in 0..LEN { total += a.bins()[j]; }
        vassert!($i, total == (if ok { 1 } else { 0 }), "C13:usable-after-reset");
        vcover!($i, ok && k == 0, "scaled-by-zero-then-add");
    }};
}

macro_rules! views_body {
    ($i:ident, $H:ty, $LEN:expr) => {{
        const LEN: usize = $LEN;
        let e = edges!($i, LEN);
        let ca = counts!($i, LEN, 1u64 << 40);
        let a = <$H>::__verif_from_parts(e, ca);
        // iteration: exactly LEN items ((lower, upper), count) in edge order
        let mut it = a.iter();
        let mut it2 = (&a).into_iter();
        for j in 0..LEN {
            match (it.next(), it2.next()) {
                (Some(((lo, hi), c)), Some(((lo2, hi2), c2))) => {
                    vassert!($i, beq(lo, e[j]) && beq(hi, e[j + 1]) && c == ca[j], "C13:iter-yields-edges-and-count-in-order");
                    vassert!($i, beq(lo2, e[j]) && beq(hi2, e[j + 1]) && c2 == ca[j], "C13:iter-yields-edges-and-count-in-order");
                }
                _ => { vassert!($i, false, "C13:iter-yields-exactly-len-items"); }
            }
        }
        vassert!($i, it.next().is_none() && it2.next().is_none(), "C13:iter-yields-exactly-len-items");
        // widths: a single rounded subtraction, so exact (NaN for inf-inf compared as NaN)
        let mut w = a.widths();
        for j in 0..LEN {
            let ww = w.next();
            vassert!($i, ww.is_some(), "C13:views-yield-len-items");
            if let Some(ww) = ww {
                vassert!($i, crate::util::same(ww, e[j + 1] - e[j]), "C13:width-is-upper-minus-lower");
            }
        }
        vassert!($i, w.next().is_none(), "C13:views-yield-len-items");
        vcover!($i, e[0] == f64::NEG_INFINITY && e[1] == f64::INFINITY, "infinite-width-bin");
    }};
}

/// centers: (lower+upper)/2 up to 2 ulp (halving a rounded sum is exact, so any evaluation order of the
/// midpoint of the rounded sum agrees; 2 ulp leaves room for lower + (upper-lower)/2 style evaluations)
macro_rules! centers_body {
    ($i:ident, $H:ty, $LEN:expr) => {{
        const LEN: usize = $LEN;
        let e = edges!($i, LEN);
        let a = <$H>::__verif_from_parts(e, [0u64; LEN]);
        let mut c = a.centers();
        for j in 0..LEN {
            let cv = c.next();
            vassert!($i, cv.is_some(), "C13:views-yield-len-items");
            if let Some(cv) = cv {
                let ctr = 0.5 * (e[j] + e[j + 1]);
                vassert!($i, crate::util::ulp_close(cv, ctr, 2), "C13:center-is-midpoint");
            }
        }
        vassert!($i, c.next().is_none(), "C13:views-yield-len-items");
        vcover!($i, e[0] < 0.0 && e[1] > 0.0, "bin-straddles-zero");
    }};
}

/// variance(i) and variances() agree (both NaN, or numerically equal) and yield LEN items
macro_rules! variance_body {
    ($i:ident, $H:ty, $LEN:expr) => {{
        const LEN: usize = $LEN;
        let e = edges!($i, LEN);
        let ca = counts!($i, LEN, 1u64 << 40);
        let a = <$H>::__verif_from_parts(e, ca);
        let mut vs = a.variances();
        for j in 0..LEN {
            let v = vs.next();
            vassert!($i, v.is_some(), "C13:views-yield-len-items");
            if let Some(v) = v {
                vassert!($i, crate::util::same(v, a.variance(j)), "C13:variance-agrees-with-variances");
            }
        }
        vassert!($i, vs.next().is_none(), "C13:views-yield-len-items");
        let mut nb = a.normalized_bins();
        for j in 0..LEN { vassert!($i, nb.next().is_some(), "C13:views-yield-len-items"); }
        vassert!($i, nb.next().is_none(), "C13:views-yield-len-items");
        vcover!($i, ca[0] == 0 && ca[LEN - 1] == 0, "empty-histogram-variance-nan");
    }};
}

/// different edges: merge and += must panic (the statement after the call is unreachable)
macro_rules! diff_edges_body {
    ($i:ident, $H:ty, $LEN:expr, $use_merge:expr) => {{
        const LEN: usize = $LEN;
        let e = edges!($i, LEN);
        let f = edges!($i, LEN);
        let d = $i.usize();
        vassume!($i, d <= LEN && e[d] != f[d]);
        let ca = counts!($i, LEN, 1u64 << 61);
        let cb = counts!($i, LEN, 1u64 << 61);
        let mut a = <$H>::__verif_from_parts(e, ca);
        let b = <$H>::__verif_from_parts(f, cb);
        if $use_merge { a.merge(&b); } else { a += &b; }
        vunreachable!($i, "must-be-unreachable:C13:different-edges-must-panic");
    }};
}

harnesses! {
    fn same_edges2 [6] (i) { same_edges_body!(i, H2, 2) }
    fn same_edges3 [7] (i) { same_edges_body!(i, H3, 3) }
    fn same_edges4 [8] (i) { same_edges_body!(i, H4, 4) }
    fn same_edges10 [14] (i) { same_edges_body!(i, H10, 10) }
    fn scale_reset2 [6] (i) { scale_reset_body!(i, H2, 2) }
    fn scale_reset3 [7] (i) { scale_reset_body!(i, H3, 3) }
    fn scale_reset10 [14] (i) { scale_reset_body!(i, H10, 10) }
    fn views1 [5] (i) { views_body!(i, H1, 1) }
    fn views2 [6] (i) { views_body!(i, H2, 2) }
    fn views3 [7] (i) { views_body!(i, H3, 3) }
    fn views10 [14] (i) { views_body!(i, H10, 10) }
    fn centers2 [6] (i) { centers_body!(i, H2, 2) }
    fn centers3 [7] (i) { centers_body!(i, H3, 3) }
    fn variance2 [6] (i) { variance_body!(i, H2, 2) }
    fn variance3 [7] (i) { variance_body!(i, H3, 3) }
    fn diff_merge2 [6] (i) { diff_edges_body!(i, H2, 2, true) }
    fn diff_merge3 [7] (i) { diff_edges_body!(i, H3, 3, true) }
    fn diff_addassign2 [6] (i) { diff_edges_body!(i, H2, 2, false) }
    fn diff_addassign3 [7] (i) { diff_edges_body!(i, H3, 3, false) }
    fn diff_merge10 [14] (i) { diff_edges_body!(i, H10, 10, true) }
    fn diff_addassign10 [14] (i) { diff_edges_body!(i, H10, 10, false) }
}
