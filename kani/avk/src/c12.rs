//! C12 — histogram construction accepts exactly the valid edge lists.
use crate::hists::*;
use crate::inp::Inp;
use crate::util::beq;
use average::{Histogram as _, InvalidRangeError};

macro_rules! from_ranges_body {
    ($i:ident, $H:ty, $LEN:expr) => {{
        const LEN: usize = $LEN;
        const M: usize = LEN + 3;
        let mut v = [0.0f64; M];
        for j in 0..M { v[j] = $i.f64(); }
        let l = $i.usize();
        vassume!($i, l <= M);
        // specification, evaluated independently
        let scan = if l < LEN + 1 { l } else { LEN + 1 };
        let mut spec: Result<(), InvalidRangeError> = Ok(());
        for j in 0..M {
            if j < scan && spec.is_ok() {
                if v[j].is_nan() {
                    spec = Err(InvalidRangeError::NaN);
                } else if j > 0 && v[j] < v[j - 1] {
                    spec = Err(InvalidRangeError::NotSorted);
                }
            }
        }
        if spec.is_ok() && l <= LEN {
            spec = Err(InvalidRangeError::NotEnoughRanges);
        }
        let got = <$H>::from_ranges(v.iter().copied().take(l));
        match (&got, &spec) {
            (Ok(h), Ok(())) => {
                let r = h.ranges();
                vassert!($i, r.len() == LEN + 1, "C12:ranges-has-len-plus-one");
                for j in 0..=LEN {
                    vassert!($i, beq(r[j], v[j]), "C12:ranges-returned-unchanged");
                }
                for j in 0..LEN {
                    vassert!($i, h.bins()[j] == 0, "C12:fresh-counts-zero");
                }
            }
            (Err(a), Err(b)) => {
                vassert!($i, *a == *b, "C12:error-of-first-offending-position");
            }
            (Ok(_), Err(_)) => { vassert!($i, false, "C12:accepted-invalid-edge-list"); }
            (Err(_), Ok(())) => { vassert!($i, false, "C12:rejected-valid-edge-list"); }
        }
        vcover!($i, got.is_ok() && l > LEN + 1 && v[LEN + 1].is_nan(), "extra-values-ignored-even-nan");
        vcover!($i, matches!(got, Err(InvalidRangeError::NotSorted)) && l > 2, "not-sorted");
        vcover!($i, got.is_ok() && v[0] == f64::NEG_INFINITY && v[LEN] == f64::INFINITY, "infinite-outer-edges");
    }};
}

/// |x| in {0} U [lo, hi]
fn mag_ok(x: f64, lo: f64, hi: f64) -> bool {
    let a = x.abs();
    x.is_finite() && (a == 0.0 || (a >= lo && a <= hi))
}

macro_rules! const_width_body {
    ($i:ident, $H:ty, $LEN:expr, $lo:expr, $hi:expr, $numeric:expr) => {{
        const LEN: usize = $LEN;
        let start = $i.f64();
        let end = $i.f64();
        vassume!($i, mag_ok(start, $lo, $hi) && mag_ok(end, $lo, $hi) && start < end);
        let h = <$H>::with_const_width(start, end);
        let r = h.ranges();
        vassert!($i, r.len() == LEN + 1, "C12:const-width-has-len-plus-one-edges");
        vassert!($i, r[0] == start, "C12:const-width-first-edge-is-start");
        for j in 0..LEN {
            vassert!($i, r[j] <= r[j + 1], "C12:const-width-edges-non-decreasing");
            vassert!($i, h.bins()[j] == 0, "C12:fresh-counts-zero");
        }
        if $numeric {
            let m = if start.abs() > end.abs() { start.abs() } else { end.abs() };
            let tol = 8.0 * m * (f64::EPSILON);
            vassert!($i, (r[LEN] - end).abs() <= tol, "C12:const-width-last-edge-near-end");
            for j in 1..LEN {
                let alt = start + (j as f64) * (end - start) / (LEN as f64);
                vassert!($i, (r[j] - alt).abs() <= tol, "C12:const-width-edge-near-exact");
            }
        }
        vcover!($i, start < 0.0 && end > 0.0, "straddles-zero");
    }};
}

/// numeric claim on an integer lattice with an exact rational oracle:
/// start = a*2^k, end = b*2^k (a, b symbolic i16, k a per-harness constant): the exact edge is
/// (a*(LEN-j) + b*j) * 2^k / LEN; compare LEN*r_j/2^k (one constant multiplication) with the integer numerator.
macro_rules! const_width_lattice {
    ($i:ident, $H:ty, $LEN:expr, $scale:expr) => {{
        const LEN: usize = $LEN;
        let a = $i.i64();
        let b = $i.i64();
        vassume!($i, a >= -32768 && a <= 32767 && b >= -32768 && b <= 32767 && a < b);
        let scale: f64 = $scale;
        let start = (a as f64) * scale;
        let end = (b as f64) * scale;
        let h = <$H>::with_const_width(start, end);
        let r = h.ranges();
        let m = if a.abs() > b.abs() { a.abs() } else { b.abs() } as f64;
        // 8 ulp of max(|start|,|end|), in units of scale/LEN, plus half an ulp for the comparison's own multiplication
        let tol = (LEN as f64) * 8.5 * m * f64::EPSILON;
        for j in 0..=LEN {
            let num = a * ((LEN - j) as i64) + b * (j as i64);
            let got = r[j] * ((LEN as f64) / scale);
            vassert!($i, (got - (num as f64)).abs() <= tol, "C12:const-width-edge-near-exact");
        }
        vcover!($i, a < 0 && b > 0 && (b - a) % (LEN as i64) != 0, "straddles-zero-inexact-step");
    }};
}

harnesses! {
    fn const_width_lat2 [5] (i) { const_width_lattice!(i, H2, 2, 1.0) }
    fn const_width_lat3 [6] (i) { const_width_lattice!(i, H3, 3, 1.0) }
    fn const_width_lat4 [7] (i) { const_width_lattice!(i, H4, 4, 0.25) }
    fn const_width_lat5 [8] (i) { const_width_lattice!(i, H5, 5, 1024.0) }
    fn from_ranges1 [6] (i) { from_ranges_body!(i, H1, 1) }
    fn from_ranges2 [7] (i) { from_ranges_body!(i, H2, 2) }
    fn from_ranges3 [8] (i) { from_ranges_body!(i, H3, 3) }
    fn from_ranges4 [9] (i) { from_ranges_body!(i, H4, 4) }
    fn from_ranges10 [15] (i) { from_ranges_body!(i, H10, 10) }
    /// structural claims on the whole C12 domain (30 orders of magnitude)
    fn const_width_struct2 [5] (i) { const_width_body!(i, H2, 2, 1e-30, 1e30, false) }
    fn const_width_struct4 [7] (i) { const_width_body!(i, H4, 4, 1e-30, 1e30, false) }
    /// numeric claims (edge i within 8 ulp of max(|start|,|end|) of start + i*(end-start)/LEN)
    fn const_width_num1 [4] (i) { const_width_body!(i, H1, 1, 1e-30, 1e30, true) }
    fn const_width_num2 [5] (i) { const_width_body!(i, H2, 2, 1e-30, 1e30, true) }
    fn const_width_num3 [6] (i) { const_width_body!(i, H3, 3, 1e-30, 1e30, true) }
    fn const_width_num4 [7] (i) { const_width_body!(i, H4, 4, 1e-30, 1e30, true) }
    fn const_width_num3_small [6] (i) { const_width_body!(i, H3, 3, 0.00390625, 256.0, true) }
    fn const_width_num10 [13] (i) { const_width_body!(i, H10, 10, 1e-30, 1e30, true) }
}
