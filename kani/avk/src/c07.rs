//! C07 — with fewer than five observations Quantile returns the exact sample quantile.
use crate::inp::Inp;
use crate::util::{same, ulp_close};
use average::{Estimate, Quantile};

/// sort a small array of finite doubles (compare-exchange network; oracle side)
fn sort_small<const N: usize>(v: &mut [f64; N]) {
    for a in 0..N {
        for b in 0..N - 1 - a {
            if v[b] > v[b + 1] {
                let t = v[b];
                v[b] = v[b + 1];
                v[b + 1] = t;
            }
        }
    }
}

/// r is the midpoint of a and b up to rounding: 2r agrees with a+b to 4 ulp (doubling is exact; additions only, no
/// multiplier for the solver), or exactly when a == b; an absolute slack covers subnormal halves.
fn is_mid(r: f64, a: f64, b: f64) -> bool {
    if a == b {
        return same(r, a) || (r - a).abs() <= 1e-320;
    }
    let s = a + b;
    let d = r + r;
    ulp_close(d, s, 4) || (d - s).abs() <= 1e-320
}

/// p restricted to doubles with at most 13 significant bits and p >= 2^-12 (or 0): contains every m/4096,
/// so 0, 1 and every k/2, k/4 boundary; n*p is then exact for n <= 4.
fn grid_p<I: Inp>(i: &mut I) -> f64 {
    let p = i.f64();
    vassume!(i, p >= 0.0 && p <= 1.0);
    vassume!(i, p == 0.0 || p >= 0.000244140625);
    vassume!(i, p.to_bits() & ((1u64 << 40) - 1) == 0);
    p
}

fn obs<I: Inp>(i: &mut I) -> f64 {
    let x = i.f64();
    vassume!(i, x.is_finite() && x.abs() <= 1e300);
    x
}

/// exact-product case (n*p representable): the answer is unambiguous, averaging is mandatory on whole n*p
fn exact_case<I: Inp, const N: usize>(i: &mut I, p: f64) {
    exact_case_on::<I, N>(i, p, false)
}

/// observation on a quarter-integer lattice (i16 / 4): keeps the 0.5*a + 0.5*b products narrow for the solver
fn obs_lat<I: Inp>(i: &mut I) -> f64 {
    (i.i16() as f64) * 0.25
}

fn exact_case_on<I: Inp, const N: usize>(i: &mut I, p: f64, lattice: bool) {
    let mut xs = [0.0f64; N];
    for j in 0..N { xs[j] = if lattice { obs_lat(i) } else { obs(i) }; }
    let mut q = Quantile::new(p);
    for j in 0..N { q.add(xs[j]); }
    vassert!(i, q.len() == N as u64, "C07:len-counts-observations");
    let r = q.quantile();
    let mut v = xs;
    sort_small(&mut v);
    let t = (N as f64) * p; // exact by construction of p
    let c = t.ceil();
    if p == 0.0 {
        vassert!(i, same(r, v[0]), "C07:p0-is-minimum");
    } else if p == 1.0 {
        vassert!(i, same(r, v[N - 1]), "C07:p1-is-maximum");
    } else if t == c {
        // whole n*p = j with 1 <= j <= N-1: average of v[j-1] and v[j]
        let j = c as usize;
        if j >= 1 && j <= N - 1 {
            vassert!(i, is_mid(r, v[j - 1], v[j]), "C07:whole-np-averages-adjacent-order-statistics");
        }
    } else {
        let k = c as usize; // smallest k with k/n >= p
        if k >= 1 && k <= N {
            vassert!(i, same(r, v[k - 1]), "C07:smallest-observation-reaching-p");
        }
    }
    vcover!(i, (N == 1 || xs[0] > xs[N - 1]) && t != c && p > 0.0, "unsorted-arrival-non-boundary-p");
    vcover!(i, N == 1 || N == 3 || (t == c && p > 0.0 && p < 1.0 && xs[0] > xs[N - 1]), "unsorted-arrival-boundary-p");
}

/// rounded-product case (n = 3, arbitrary p): when fl(n*p) is within an ulp of a whole number either adjacent
/// convention is accepted, otherwise the ceil rule is unambiguous.
fn rounded_case<I: Inp, const N: usize>(i: &mut I, p: f64) {
    rounded_case_on::<I, N>(i, p, false)
}

fn rounded_case_on<I: Inp, const N: usize>(i: &mut I, p: f64, lattice: bool) {
    let mut xs = [0.0f64; N];
    for j in 0..N { xs[j] = if lattice { obs_lat(i) } else { obs(i) }; }
    let mut q = Quantile::new(p);
    for j in 0..N { q.add(xs[j]); }
    let r = q.quantile();
    let mut v = xs;
    sort_small(&mut v);
    let t = (N as f64) * p;
    let c = t.ceil();
    let near_whole = |j: f64| ulp_close(t, j, 1);
    if p == 0.0 {
        vassert!(i, same(r, v[0]), "C07:p0-is-minimum");
    } else if p == 1.0 {
        vassert!(i, same(r, v[N - 1]), "C07:p1-is-maximum");
    } else {
        let mut ok = false;
        let mut ambiguous = false;
        for j in 1..N {
            if near_whole(j as f64) {
                ambiguous = true;
                ok = ok || same(r, v[j - 1]) || same(r, v[j]) || is_mid(r, v[j - 1], v[j]);
            }
        }
        if !ambiguous {
            let k = c as usize;
            ok = k >= 1 && k <= N && same(r, v[k - 1]);
            // fl(n*p) within an ulp of 0 or of n: p is within rounding of 0 or 1
            if near_whole(0.0) { ok = ok || same(r, v[0]); }
            if near_whole(N as f64) { ok = ok || same(r, v[N - 1]); }
        }
        vassert!(i, ok, "C07:exact-sample-quantile-up-to-boundary-convention");
    }
    vcover!(i, (N == 1 || xs[0] > xs[N - 1]) && p > 0.0 && p < 1.0, "unsorted-arrival");
}

fn free_p<I: Inp>(i: &mut I) -> f64 {
    let p = i.f64();
    vassume!(i, p >= 0.0 && p <= 1.0);
    p
}

/// p = c/12 rounded, optionally one ulp up or down: every k/n boundary for n <= 4 with both neighbours
fn twelfth_p<I: Inp>(i: &mut I) -> f64 {
    const T: [f64; 13] = [0.0, 1.0 / 12.0, 2.0 / 12.0, 0.25, 4.0 / 12.0, 5.0 / 12.0, 0.5, 7.0 / 12.0, 8.0 / 12.0, 0.75,
        10.0 / 12.0, 11.0 / 12.0, 1.0];
    let c = i.u8() as usize;
    vassume!(i, c <= 12);
    let d = i.u8();
    vassume!(i, d <= 2);
    let base = T[c];
    let p = match d {
        0 => base,
        1 => if base > 0.0 { f64::from_bits(base.to_bits() - 1) } else { base },
        _ => if base < 1.0 { f64::from_bits(base.to_bits() + 1) } else { base },
    };
    p
}

harnesses! {
    fn grid1 [8] (i) { let p = grid_p(i); exact_case::<I, 1>(i, p); }
    fn grid2 [8] (i) { let p = grid_p(i); exact_case::<I, 2>(i, p); }
    fn grid3 [8] (i) { let p = grid_p(i); exact_case::<I, 3>(i, p); }
    fn grid4 [8] (i) { let p = grid_p(i); exact_case::<I, 4>(i, p); }
    fn lat2 [8] (i) { let p = grid_p(i); exact_case_on::<I, 2>(i, p, true); }
    fn lat4 [8] (i) { let p = grid_p(i); exact_case_on::<I, 4>(i, p, true); }
    fn twelfth2_lat [8] (i) { let p = twelfth_p(i); rounded_case_on::<I, 2>(i, p, true); }
    fn twelfth3_lat [8] (i) { let p = twelfth_p(i); rounded_case_on::<I, 3>(i, p, true); }
    fn twelfth4_lat [8] (i) { let p = twelfth_p(i); rounded_case_on::<I, 4>(i, p, true); }
    fn free1 [8] (i) { let p = free_p(i); exact_case::<I, 1>(i, p); }
    fn free2 [8] (i) { let p = free_p(i); exact_case::<I, 2>(i, p); }
    fn free4 [8] (i) { let p = free_p(i); exact_case::<I, 4>(i, p); }
    fn twelfth2 [8] (i) { let p = twelfth_p(i); rounded_case::<I, 2>(i, p); }
    fn twelfth3 [8] (i) { let p = twelfth_p(i); rounded_case::<I, 3>(i, p); }
    fn twelfth4 [8] (i) { let p = twelfth_p(i); rounded_case::<I, 4>(i, p); }
    fn free3 [8] (i) { let p = free_p(i); rounded_case::<I, 3>(i, p); }
}
