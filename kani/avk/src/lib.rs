//! Engine K harnesses for vks/average (see /verif/DESIGN.md §2.1).
#![allow(clippy::all)]
#[macro_use]
pub mod inp;
pub mod util;
pub mod hists;
pub mod types;
pub mod c06;
pub mod c07;
pub mod c11;
pub mod c12;
pub mod c13;
pub mod c14;
pub mod c15;
pub mod c16;
pub mod c17;
pub mod c20;
pub mod lat;

pub fn registry() -> Vec<(&'static str, &'static [(&'static str, fn(&mut inp::VecInp))])> {
    vec![
        ("c06", c06::HARNESSES),
        ("c07", c07::HARNESSES),
        ("c11", c11::HARNESSES),
        ("c12", c12::HARNESSES),
        ("c13", c13::HARNESSES),
        ("c14", c14::HARNESSES),
        ("c15", c15::HARNESSES),
        ("c16", c16::HARNESSES),
        ("c17", c17::HARNESSES),
        ("c20", c20::HARNESSES),
        ("lat", lat::HARNESSES),
    ]
}
