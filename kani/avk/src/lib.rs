//! Engine K harnesses for vks/average (see /verif/DESIGN.md §2.1).
#![allow(clippy::all)]
#[macro_use]
pub mod inp;
pub mod util;
pub mod c14;

pub fn registry() -> Vec<(&'static str, &'static [(&'static str, fn(&mut inp::VecInp))])> {
    vec![
        ("c14", c14::HARNESSES),
    ]
}
