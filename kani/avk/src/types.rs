//! Estimator types instantiated by the crate's macros, and symbolic well-formed states (DESIGN §2.1).
use crate::inp::Inp;
use average::{Covariance, Kurtosis, Mean, Skewness, Variance, WeightedMean, WeightedMeanWithError};

mod m5 {
    use average::define_moments;
    define_moments!(M5, 5);
}
mod m6 {
    use average::define_moments;
    define_moments!(M6, 6);
}
mod m8 {
    use average::define_moments;
    define_moments!(M8, 8);
}
mod m10 {
    use average::define_moments;
    define_moments!(M10, 10);
}
pub use m10::M10;
pub use m5::M5;
pub use m6::M6;
pub use m8::M8;
pub use average::Moments4 as M4;

pub const MAXN: u64 = 1u64 << 53;

/// finite double (full range)
pub fn fin<I: Inp>(i: &mut I) -> f64 {
    let x = i.f64();
    vassume!(i, x.is_finite());
    x
}
/// finite, non-negative, sign bit clear (a sum of squares)
pub fn nonneg<I: Inp>(i: &mut I) -> f64 {
    let x = i.f64();
    vassume!(i, x.is_finite() && x >= 0.0 && !x.is_sign_negative());
    x
}
pub fn count<I: Inp>(i: &mut I) -> u64 {
    let n = i.u64();
    vassume!(i, n <= MAXN);
    n
}

// Representation invariant used for hook-built states: n == 0 => the new() values;
// n >= 1 => fields finite and the sum of squares >= 0; n == 1 => all central sums are 0.

pub fn mean_parts<I: Inp>(i: &mut I) -> (f64, u64) {
    let n = count(i);
    let avg = fin(i);
    if n == 0 { (0.0, 0) } else { (avg, n) }
}
pub fn mean_state<I: Inp>(i: &mut I) -> Mean {
    let (a, n) = mean_parts(i);
    Mean::__verif_from_parts(a, n)
}
pub fn var_parts<I: Inp>(i: &mut I) -> (f64, u64, f64) {
    let (a, n) = mean_parts(i);
    let s2 = nonneg(i);
    if n <= 1 { (a, n, 0.0) } else { (a, n, s2) }
}
pub fn var_state<I: Inp>(i: &mut I) -> Variance {
    let (a, n, s2) = var_parts(i);
    Variance::__verif_from_parts(a, n, s2)
}
pub fn skew_parts<I: Inp>(i: &mut I) -> (f64, u64, f64, f64) {
    let (a, n, s2) = var_parts(i);
    let s3 = fin(i);
    if n <= 1 { (a, n, s2, 0.0) } else { (a, n, s2, s3) }
}
pub fn skew_state<I: Inp>(i: &mut I) -> Skewness {
    let (a, n, s2, s3) = skew_parts(i);
    Skewness::__verif_from_parts(a, n, s2, s3)
}
pub fn kurt_parts<I: Inp>(i: &mut I) -> (f64, u64, f64, f64, f64) {
    let (a, n, s2, s3) = skew_parts(i);
    let s4 = nonneg(i);
    if n <= 1 { (a, n, s2, s3, 0.0) } else { (a, n, s2, s3, s4) }
}
pub fn kurt_state<I: Inp>(i: &mut I) -> Kurtosis {
    let (a, n, s2, s3, s4) = kurt_parts(i);
    Kurtosis::__verif_from_parts(a, n, s2, s3, s4)
}
pub fn m4_parts<I: Inp>(i: &mut I) -> (u64, f64, [f64; 3]) {
    let (a, n, s2, s3, s4) = kurt_parts(i);
    (n, a, [s2, s3, s4])
}
pub fn m4_state<I: Inp>(i: &mut I) -> M4 {
    let (n, a, m) = m4_parts(i);
    M4::__verif_from_parts(n, a, m)
}
pub fn m5_parts<I: Inp>(i: &mut I) -> (u64, f64, [f64; 4]) {
    let (a, n, s2, s3, s4) = kurt_parts(i);
    let s5 = fin(i);
    (n, a, [s2, s3, s4, if n <= 1 { 0.0 } else { s5 }])
}
pub fn m5_state<I: Inp>(i: &mut I) -> M5 {
    let (n, a, m) = m5_parts(i);
    M5::__verif_from_parts(n, a, m)
}
pub fn cov_parts<I: Inp>(i: &mut I) -> (f64, f64, f64, f64, f64, u64) {
    let n = count(i);
    let (ax, ay) = (fin(i), fin(i));
    let (sx, sy) = (nonneg(i), nonneg(i));
    let sp = fin(i);
    if n == 0 { (0.0, 0.0, 0.0, 0.0, 0.0, 0) } else if n == 1 { (ax, 0.0, ay, 0.0, 0.0, 1) } else { (ax, sx, ay, sy, sp, n) }
}
pub fn cov_state<I: Inp>(i: &mut I) -> Covariance {
    let (ax, sx, ay, sy, sp, n) = cov_parts(i);
    Covariance::__verif_from_parts(ax, sx, ay, sy, sp, n)
}
/// weighted mean: weight_sum >= 0 (sign clear); weight_sum == 0 => average is the new() value 0
pub fn wm_parts<I: Inp>(i: &mut I) -> (f64, f64) {
    let w = nonneg(i);
    let a = fin(i);
    if w == 0.0 { (0.0, 0.0) } else { (w, a) }
}
pub fn wm_state<I: Inp>(i: &mut I) -> WeightedMean {
    let (w, a) = wm_parts(i);
    WeightedMean::__verif_from_parts(w, a)
}
/// weighted mean with error: n == 0 => everything is new(); total weight 0 with n > 0 is allowed (all-zero weights)
pub fn wmwe_parts<I: Inp>(i: &mut I) -> (f64, (f64, f64), (f64, u64, f64)) {
    let un = var_parts(i);
    let wm = wm_parts(i);
    let wsq = nonneg(i);
    if un.1 == 0 { (0.0, (0.0, 0.0), un) } else if wm.0 == 0.0 { (0.0, wm, un) } else { (wsq, wm, un) }
}
pub fn wmwe_state<I: Inp>(i: &mut I) -> WeightedMeanWithError {
    let (wsq, wm, un) = wmwe_parts(i);
    WeightedMeanWithError::__verif_from_parts(wsq, wm, un)
}
