//! Integer-lattice envelope harnesses (C01, C02, C03): observations x_i = OFF + k_i with small symbolic integers k_i.
//! Central moments are shift invariant, so the exact statistic is an integer expression in the k_i that the harness
//! evaluates without rounding; the implementation's double result must lie inside the section-3 envelope, which is
//! linear in the conditioning kappa = 1 + X/sigma. This is the bit-precise check that an algebraically correct but
//! numerically unstable reformulation (e.g. the sum-of-squares formula) fails at offsets >> spread.
use crate::inp::Inp;
use average::{Estimate, Kurtosis, Mean, Merge, Skewness, Variance};

const U: f64 = 1.1102230246251565e-16; // 2^-53

fn isqrt_up(n: i64) -> i64 {
    // smallest r with r*r >= n, for 0 <= n <= 10^4
    let mut r = 0i64;
    while r * r < n && r < 101 { r += 1; }
    r
}

fn small<I: Inp>(i: &mut I, r: i64) -> i64 {
    let k = i.i8() as i64;
    vassume!(i, k >= -r && k <= r);
    k
}

/// n = 3 observations OFF + k_j: mean and variances inside the envelope
fn variance3<I: Inp>(i: &mut I, off: i64, r: i64, split: bool) {
    let ks = [small(i, r), small(i, r), small(i, r)];
    let xs = [(off + ks[0]) as f64, (off + ks[1]) as f64, (off + ks[2]) as f64];
    let v: Variance = if split {
        // two chunks merged: sizes (1,2) or (2,1), symbolic
        let first_one = i.bool();
        let (mut a, mut b) = (Variance::new(), Variance::new());
        if first_one { a.add(xs[0]); b.add(xs[1]); b.add(xs[2]); } else { a.add(xs[0]); a.add(xs[1]); b.add(xs[2]); }
        a.merge(&b);
        a
    } else {
        let mut a = Variance::new();
        for j in 0..3 { a.add(xs[j]); }
        a
    };
    let s1 = ks[0] + ks[1] + ks[2];
    let s2 = ks[0] * ks[0] + ks[1] * ks[1] + ks[2] * ks[2];
    let num = 3 * s2 - s1 * s1; // 9 * population variance = 6 * sample variance, exactly
    let x_max = (off.abs() + r) as f64;
    // C * n * kappa * u * scale with kappa * scale = sigma^2 + X * sigma; sigma <= isqrt_up(num) / 3
    let sig_up = (isqrt_up(num) as f64) / 3.0;
    let ksc = (num as f64) / 9.0 + x_max * sig_up;
    let tol_var = 16.0 * 3.0 * U * ksc;
    let pv = v.population_variance();
    let sv = v.sample_variance();
    vassert!(i, v.len() == 3, "C01:len-counts-observations");
    vassert!(i, (pv - (num as f64) / 9.0).abs() <= tol_var, "C01:population-variance-within-envelope");
    vassert!(i, (sv - (num as f64) / 6.0).abs() <= tol_var * 1.5, "C01:sample-variance-within-envelope");
    // mean = OFF + s1/3 within 8 * n * u * X (kappa-free part dominates here); compare 3*(mean - OFF) with s1
    let m = v.mean();
    let tol_mean = 8.0 * 3.0 * U * x_max * (1.0 + x_max / 1.0e9) + 2.0 * U * x_max;
    vassert!(i, ((m - off as f64) * 3.0 - s1 as f64).abs() <= 3.0 * tol_mean + 4.0 * U * (r as f64 * 3.0), "C01:mean-within-envelope");
    if num == 0 {
        vassert!(i, pv == 0.0, "C16:constant-stream-variance-exact-zero");
    }
    vcover!(i, num > 20 && s1 != 0, "spread-out-sample");
}

/// two-observation skewness/kurtosis sanity on the lattice: skewness of two points is 0, kurtosis -2, within the envelope
fn two_point<I: Inp>(i: &mut I, off: i64) {
    let (a, b) = (small(i, 8), small(i, 8));
    vassume!(i, a != b);
    let mut s = Skewness::new();
    let mut k = Kurtosis::new();
    for x in [(off + a) as f64, (off + b) as f64] { s.add(x); k.add(x); }
    let x_max = (off.abs() + 8) as f64;
    let sigma = ((a - b).abs() as f64) / 2.0;
    let kappa = 1.0 + x_max / sigma;
    vassert!(i, s.skewness().abs() <= 64.0 * 2.0 * kappa * U * 1.0 + 1e-300, "C03:two-point-skewness-zero-within-envelope");
    vassert!(i, (k.kurtosis() + 2.0).abs() <= 128.0 * 2.0 * kappa * U * 1.0, "C03:two-point-kurtosis-within-envelope");
    vcover!(i, a > 0 && b < 0, "straddles-offset");
}

fn mean3<I: Inp>(i: &mut I, off: i64) {
    let ks = [small(i, 100), small(i, 100), small(i, 100)];
    let mut m = Mean::new();
    for j in 0..3 { m.add((off + ks[j]) as f64); }
    let s1 = ks[0] + ks[1] + ks[2];
    let x_max = (off.abs() + 100) as f64;
    vassert!(i, ((m.mean() - off as f64) * 3.0 - s1 as f64).abs() <= 3.0 * 8.0 * 3.0 * U * x_max, "C01:mean-within-envelope");
    vcover!(i, s1 == 1, "inexact-third");
}

harnesses! {
    fn variance3_off0 [16] (i) { variance3(i, 0, 4, false); }
    fn variance3_off1e9 [16] (i) { variance3(i, 1_000_000_000, 4, false); }
    fn variance3_neg1e9 [16] (i) { variance3(i, -1_000_000_000, 4, false); }
    fn variance3_off1e12 [16] (i) { variance3(i, 1_000_000_000_000, 4, false); }
    fn variance3_off1e15 [16] (i) { variance3(i, 1_000_000_000_000_000, 4, false); }
    fn variance3_r8_off1e9 [28] (i) { variance3(i, 1_000_000_000, 8, false); }
    fn merge3_off1e9 [16] (i) { variance3(i, 1_000_000_000, 4, true); }
    fn merge3_off0 [16] (i) { variance3(i, 0, 4, true); }
    fn mean3_off1e9 [6] (i) { mean3(i, 1_000_000_000); }
    fn mean3_off1e15 [6] (i) { mean3(i, 1_000_000_000_000_000); }
    fn two_point_off0 [6] (i) { two_point(i, 0); }
    fn two_point_off1e9 [6] (i) { two_point(i, 1_000_000_000); }
}
