//! C20 — every ingestion path builds the same estimator; concatenate! adds nothing.
use crate::inp::Inp;
use crate::types::*;
use crate::util::{beq, dom_f64};
use average::{concatenate, Covariance, Estimate, Kurtosis, Max, Mean, Min, Quantile, Skewness, Variance, WeightedMean, WeightedMeanWithError};

fn stat_eq(a: f64, b: f64) -> bool {
    (a.is_nan() && b.is_nan()) || beq(a, b)
}

concatenate!(CatShort, [Min, min], [Max, max], [Mean, mean]);
concatenate!(pub CatLong, [Variance, var, mean, sample_variance, population_variance, error], [Quantile, quant, quantile], [Kurtosis, kurt, kurtosis, skewness]);

/// value-taking estimators: collect by value / by reference, extend in two pieces at a symbolic split, add loop
macro_rules! paths_f64 {
    ($i:ident, $T:ty, $N:expr, $eq:expr) => {{
        const N: usize = $N;
        let mut xs = [0.0f64; N];
        for j in 0..N { xs[j] = dom_f64($i); }
        let cut = $i.usize();
        vassume!($i, cut <= N);
        let mut a = <$T>::new();
        for j in 0..N { a.add(xs[j]); }
        let b: $T = xs.iter().copied().collect();
        let c: $T = xs.iter().collect();
        let mut d = <$T>::default();
        d.extend(xs[..cut].iter().copied());
        d.extend(xs[cut..].iter());
        let eq = $eq;
        vassert!($i, eq(&a, &b), "C20:collect-by-value-equals-add-loop");
        vassert!($i, eq(&a, &c), "C20:collect-by-reference-equals-add-loop");
        vassert!($i, eq(&a, &d), "C20:extend-in-pieces-equals-add-loop");
        vcover!($i, cut > 0 && cut < N, "split-in-the-middle");
    }};
}

macro_rules! paths_pair {
    ($i:ident, $T:ty, $N:expr, $add:expr, $eq:expr) => {{
        const N: usize = $N;
        let mut xs = [(0.0f64, 0.0f64); N];
        for j in 0..N { xs[j] = (dom_f64($i), dom_f64($i)); }
        let cut = $i.usize();
        vassume!($i, cut <= N);
        let mut a = <$T>::new();
        let add = $add;
        for j in 0..N { add(&mut a, xs[j].0, xs[j].1); }
        let b: $T = xs.iter().copied().collect();
        let c: $T = xs.iter().collect();
        let mut d = <$T>::default();
        d.extend(xs[..cut].iter().copied());
        d.extend(xs[cut..].iter());
        let eq = $eq;
        vassert!($i, eq(&a, &b), "C20:collect-by-value-equals-add-loop");
        vassert!($i, eq(&a, &c), "C20:collect-by-reference-equals-add-loop");
        vassert!($i, eq(&a, &d), "C20:extend-in-pieces-equals-add-loop");
        vcover!($i, cut > 0 && cut < N, "split-in-the-middle");
    }};
}

harnesses! {
    fn mean3 [6] (i) {
        paths_f64!(i, Mean, 3, |a: &Mean, b: &Mean| { let (p, q) = (a.__verif_parts(), b.__verif_parts()); beq(p.0, q.0) && p.1 == q.1 });
    }
    fn variance3 [6] (i) {
        paths_f64!(i, Variance, 3, |a: &Variance, b: &Variance| { let (p, q) = (a.__verif_parts(), b.__verif_parts()); beq(p.0, q.0) && p.1 == q.1 && beq(p.2, q.2) });
    }
    fn skewness3 [6] (i) {
        paths_f64!(i, Skewness, 3, |a: &Skewness, b: &Skewness| { let (p, q) = (a.__verif_parts(), b.__verif_parts()); beq(p.0, q.0) && p.1 == q.1 && beq(p.2, q.2) && beq(p.3, q.3) });
    }
    fn kurtosis3 [6] (i) {
        paths_f64!(i, Kurtosis, 3, |a: &Kurtosis, b: &Kurtosis| { let (p, q) = (a.__verif_parts(), b.__verif_parts()); beq(p.0, q.0) && p.1 == q.1 && beq(p.2, q.2) && beq(p.3, q.3) && beq(p.4, q.4) });
    }
    fn moments4_3 [6] (i) {
        paths_f64!(i, M4, 3, |a: &M4, b: &M4| { let (p, q) = (a.__verif_parts(), b.__verif_parts()); p.0 == q.0 && beq(p.1, q.1) && beq(p.2[0], q.2[0]) && beq(p.2[1], q.2[1]) && beq(p.2[2], q.2[2]) });
    }
    fn covariance3 [6] (i) {
        paths_pair!(i, Covariance, 3, |a: &mut Covariance, x, y| a.add(x, y), |a: &Covariance, b: &Covariance| {
            let (p, q) = (a.__verif_parts(), b.__verif_parts());
            beq(p.0, q.0) && beq(p.1, q.1) && beq(p.2, q.2) && beq(p.3, q.3) && beq(p.4, q.4) && p.5 == q.5 });
    }
    fn weighted3 [6] (i) {
        paths_pair!(i, WeightedMean, 3, |a: &mut WeightedMean, x, y| a.add(x, y), |a: &WeightedMean, b: &WeightedMean| {
            let (p, q) = (a.__verif_parts(), b.__verif_parts()); stat_eq(p.0, q.0) && stat_eq(p.1, q.1) });
    }
    fn weighted_err3 [6] (i) {
        paths_pair!(i, WeightedMeanWithError, 3, |a: &mut WeightedMeanWithError, x, y| a.add(x, y), |a: &WeightedMeanWithError, b: &WeightedMeanWithError| {
            let (p, q) = (a.__verif_parts(), b.__verif_parts());
            stat_eq(p.0, q.0) && stat_eq((p.1).0, (q.1).0) && stat_eq((p.1).1, (q.1).1) && beq((p.2).0, (q.2).0) && (p.2).1 == (q.2).1 && beq((p.2).2, (q.2).2) });
    }

    /// Estimate::estimate() is bit for bit the headline statistic (arbitrary well-formed state)
    fn estimate_is_headline [3] (i) {
        let m = mean_state(i);
        vassert!(i, stat_eq(m.estimate(), m.mean()), "C20:estimate-is-headline-statistic");
        let v = var_state(i);
        vassert!(i, stat_eq(v.estimate(), v.population_variance()), "C20:estimate-is-headline-statistic");
        let s = skew_state(i);
        vassert!(i, stat_eq(s.estimate(), s.skewness()), "C20:estimate-is-headline-statistic");
        let k = kurt_state(i);
        vassert!(i, stat_eq(k.estimate(), k.kurtosis()), "C20:estimate-is-headline-statistic");
        let x = i.f64();
        vassert!(i, stat_eq(Min::from_value(x).estimate(), Min::from_value(x).min()) && stat_eq(Max::from_value(x).estimate(), Max::from_value(x).max()), "C20:estimate-is-headline-statistic");
        vcover!(i, s.len() > 2 && s.skewness() < 0.0, "negative-skew-state");
    }

    /// concatenate! (short syntax): same statistics as the stand-alone estimators, for new(), default(), collect()
    fn concat_short [6] (i) {
        let mut xs = [0.0f64; 3];
        for j in 0..3 { xs[j] = dom_f64(i); }
        let n = i.usize();
        vassume!(i, n <= 3);
        let how = i.u8();
        vassume!(i, how <= 2);
        let mut mn = Min::new(); let mut mx = Max::new(); let mut me = Mean::new();
        for j in 0..3 { if j < n { mn.add(xs[j]); mx.add(xs[j]); me.add(xs[j]); } }
        let c: CatShort = match how {
            0 => { let mut c = CatShort::new(); for j in 0..3 { if j < n { c.add(xs[j]); } } c }
            1 => { let mut c = CatShort::default(); for j in 0..3 { if j < n { c.add(xs[j]); } } c }
            _ => xs[..n].iter().copied().collect(),
        };
        vassert!(i, stat_eq(c.min(), mn.min()) && stat_eq(c.max(), mx.max()) && stat_eq(c.mean(), me.mean()), "C20:concatenate-reports-underlying-statistics");
        vcover!(i, n == 3 && how == 2, "collected-three");
        vcover!(i, n == 0, "empty");
    }
    /// concatenate! (long syntax, several statistics per estimator, Quantile included)
    fn concat_long [8] (i) {
        let mut xs = [0.0f64; 3];
        for j in 0..3 { xs[j] = dom_f64(i); }
        let n = i.usize();
        vassume!(i, n <= 3);
        let by_collect = i.bool();
        let mut v = Variance::new(); let mut q = Quantile::default(); let mut k = Kurtosis::new();
        for j in 0..3 { if j < n { v.add(xs[j]); q.add(xs[j]); k.add(xs[j]); } }
        let c: CatLong = if by_collect { xs[..n].iter().collect() } else { let mut c = CatLong::new(); for j in 0..3 { if j < n { c.add(xs[j]); } } c };
        vassert!(i, stat_eq(c.mean(), v.mean()) && stat_eq(c.sample_variance(), v.sample_variance())
            && stat_eq(c.population_variance(), v.population_variance()) && stat_eq(c.error(), v.error()), "C20:concatenate-reports-underlying-statistics");
        vassert!(i, stat_eq(c.quantile(), q.quantile()), "C20:concatenate-reports-underlying-statistics");
        vassert!(i, stat_eq(c.kurtosis(), k.kurtosis()) && stat_eq(c.skewness(), k.skewness()), "C20:concatenate-reports-underlying-statistics");
        vcover!(i, n == 3 && by_collect, "collected-three");
    }
}
