//! C20 — every ingestion path builds the same estimator; concatenate! adds nothing.
use crate::inp::Inp;
use crate::types::*;
use crate::util::beq;
use average::{concatenate, Covariance, Estimate, Kurtosis, Max, Mean, Min, Quantile, Skewness, Variance, WeightedMean, WeightedMeanWithError};

fn stat_eq(a: f64, b: f64) -> bool {
    (a.is_nan() && b.is_nan()) || beq(a, b)
}

const DATA_A: [f64; 3] = [1.5, -2.25, 1000000007.0];
const DATA_B: [f64; 3] = [0.0, -0.0, 3.0];
const PAIRS_A: [(f64, f64); 3] = [(1.5, 0.5), (-2.25, 0.0), (1000000007.0, 2.0)];
const PAIRS_B: [(f64, f64); 3] = [(0.0, 0.0), (-0.0, 3.0), (3.0, 0.25)];

concatenate!(CatShort, [Min, min], [Max, max], [Mean, mean]);
concatenate!(pub CatLong, [Variance, var, mean, sample_variance, population_variance, error], [Quantile, quant, quantile], [Kurtosis, kurt, kurtosis, skewness]);

/// value-taking estimators: collect by value / by reference, extend in two pieces at a symbolic split, add loop
macro_rules! paths_f64 {
    ($i:ident, $T:ty, $N:expr, $data:expr, $eq:expr) => {{
        const N: usize = $N;
        // concrete data (the arithmetic constant-folds), symbolic split point: bit-level agreement of the ingestion paths
        let xs: [f64; N] = $data;
        let cut = $i.usize();
        vassume!($i, cut <= N);
        let mut a = <$T>::new();
        for j in 0..N { a.add(xs[j]); }
        let b: $T = xs.iter().copied().collect();
        let c: $T = xs.iter().collect();
        let mut d = <$T>::default();
        d.extend(xs[..cut].iter().copied());
        d.extend(xs[cut..].iter());
        let eq = $eq;
        vassert!($i, eq(&a, &b), "C20:collect-by-value-equals-add-loop");
        vassert!($i, eq(&a, &c), "C20:collect-by-reference-equals-add-loop");
        vassert!($i, eq(&a, &d), "C20:extend-in-pieces-equals-add-loop");
        vcover!($i, cut > 0 && cut < N, "split-in-the-middle");
    }};
}

macro_rules! paths_pair {
    ($i:ident, $T:ty, $N:expr, $data:expr, $add:expr, $eq:expr) => {{
        const N: usize = $N;
        let xs: [(f64, f64); N] = $data;
        let cut = $i.usize();
        vassume!($i, cut <= N);
        let mut a = <$T>::new();
        let add = $add;
        for j in 0..N { add(&mut a, xs[j].0, xs[j].1); }
        let b: $T = xs.iter().copied().collect();
        let c: $T = xs.iter().collect();
        let mut d = <$T>::default();
        d.extend(xs[..cut].iter().copied());
        d.extend(xs[cut..].iter());
        let eq = $eq;
        vassert!($i, eq(&a, &b), "C20:collect-by-value-equals-add-loop");
        vassert!($i, eq(&a, &c), "C20:collect-by-reference-equals-add-loop");
        vassert!($i, eq(&a, &d), "C20:extend-in-pieces-equals-add-loop");
        vcover!($i, cut > 0 && cut < N, "split-in-the-middle");
    }};
}

harnesses! {
    fn mean3a [6] (i) {
        paths_f64!(i, Mean, 3, DATA_A, |a: &Mean, b: &Mean| { let (p, q) = (a.__verif_parts(), b.__verif_parts()); beq(p.0, q.0) && p.1 == q.1 });
    }
    fn mean3b [6] (i) {
        paths_f64!(i, Mean, 3, DATA_B, |a: &Mean, b: &Mean| { let (p, q) = (a.__verif_parts(), b.__verif_parts()); beq(p.0, q.0) && p.1 == q.1 });
    }
    fn variance3a [6] (i) {
        paths_f64!(i, Variance, 3, DATA_A, |a: &Variance, b: &Variance| { let (p, q) = (a.__verif_parts(), b.__verif_parts()); beq(p.0, q.0) && p.1 == q.1 && beq(p.2, q.2) });
    }
    fn variance3b [6] (i) {
        paths_f64!(i, Variance, 3, DATA_B, |a: &Variance, b: &Variance| { let (p, q) = (a.__verif_parts(), b.__verif_parts()); beq(p.0, q.0) && p.1 == q.1 && beq(p.2, q.2) });
    }
    fn skewness3a [6] (i) {
        paths_f64!(i, Skewness, 3, DATA_A, |a: &Skewness, b: &Skewness| { let (p, q) = (a.__verif_parts(), b.__verif_parts()); beq(p.0, q.0) && p.1 == q.1 && beq(p.2, q.2) && beq(p.3, q.3) });
    }
    fn skewness3b [6] (i) {
        paths_f64!(i, Skewness, 3, DATA_B, |a: &Skewness, b: &Skewness| { let (p, q) = (a.__verif_parts(), b.__verif_parts()); beq(p.0, q.0) && p.1 == q.1 && beq(p.2, q.2) && beq(p.3, q.3) });
    }
    fn kurtosis3a [6] (i) {
        paths_f64!(i, Kurtosis, 3, DATA_A, |a: &Kurtosis, b: &Kurtosis| { let (p, q) = (a.__verif_parts(), b.__verif_parts()); beq(p.0, q.0) && p.1 == q.1 && beq(p.2, q.2) && beq(p.3, q.3) && beq(p.4, q.4) });
    }
    fn kurtosis3b [6] (i) {
        paths_f64!(i, Kurtosis, 3, DATA_B, |a: &Kurtosis, b: &Kurtosis| { let (p, q) = (a.__verif_parts(), b.__verif_parts()); beq(p.0, q.0) && p.1 == q.1 && beq(p.2, q.2) && beq(p.3, q.3) && beq(p.4, q.4) });
    }
    fn moments4_3a [6] (i) {
        paths_f64!(i, M4, 3, DATA_A, |a: &M4, b: &M4| { let (p, q) = (a.__verif_parts(), b.__verif_parts()); p.0 == q.0 && beq(p.1, q.1) && beq(p.2[0], q.2[0]) && beq(p.2[1], q.2[1]) && beq(p.2[2], q.2[2]) });
    }
    fn moments4_3b [6] (i) {
        paths_f64!(i, M4, 3, DATA_B, |a: &M4, b: &M4| { let (p, q) = (a.__verif_parts(), b.__verif_parts()); p.0 == q.0 && beq(p.1, q.1) && beq(p.2[0], q.2[0]) && beq(p.2[1], q.2[1]) && beq(p.2[2], q.2[2]) });
    }
    fn covariance3a [6] (i) {
        paths_pair!(i, Covariance, 3, PAIRS_A, |a: &mut Covariance, x, y| a.add(x, y), |a: &Covariance, b: &Covariance| {
            let (p, q) = (a.__verif_parts(), b.__verif_parts());
            beq(p.0, q.0) && beq(p.1, q.1) && beq(p.2, q.2) && beq(p.3, q.3) && beq(p.4, q.4) && p.5 == q.5 });
    }
    fn covariance3b [6] (i) {
        paths_pair!(i, Covariance, 3, PAIRS_B, |a: &mut Covariance, x, y| a.add(x, y), |a: &Covariance, b: &Covariance| {
            let (p, q) = (a.__verif_parts(), b.__verif_parts());
            beq(p.0, q.0) && beq(p.1, q.1) && beq(p.2, q.2) && beq(p.3, q.3) && beq(p.4, q.4) && p.5 == q.5 });
    }
    fn weighted3a [6] (i) {
        paths_pair!(i, WeightedMean, 3, PAIRS_A, |a: &mut WeightedMean, x, y| a.add(x, y), |a: &WeightedMean, b: &WeightedMean| {
            let (p, q) = (a.__verif_parts(), b.__verif_parts()); stat_eq(p.0, q.0) && stat_eq(p.1, q.1) });
    }
    fn weighted3b [6] (i) {
        paths_pair!(i, WeightedMean, 3, PAIRS_B, |a: &mut WeightedMean, x, y| a.add(x, y), |a: &WeightedMean, b: &WeightedMean| {
            let (p, q) = (a.__verif_parts(), b.__verif_parts()); stat_eq(p.0, q.0) && stat_eq(p.1, q.1) });
    }
    fn weighted_err3a [6] (i) {
        paths_pair!(i, WeightedMeanWithError, 3, PAIRS_A, |a: &mut WeightedMeanWithError, x, y| a.add(x, y), |a: &WeightedMeanWithError, b: &WeightedMeanWithError| {
            let (p, q) = (a.__verif_parts(), b.__verif_parts());
            stat_eq(p.0, q.0) && stat_eq((p.1).0, (q.1).0) && stat_eq((p.1).1, (q.1).1) && beq((p.2).0, (q.2).0) && (p.2).1 == (q.2).1 && beq((p.2).2, (q.2).2) });
    }
    fn weighted_err3b [6] (i) {
        paths_pair!(i, WeightedMeanWithError, 3, PAIRS_B, |a: &mut WeightedMeanWithError, x, y| a.add(x, y), |a: &WeightedMeanWithError, b: &WeightedMeanWithError| {
            let (p, q) = (a.__verif_parts(), b.__verif_parts());
            stat_eq(p.0, q.0) && stat_eq((p.1).0, (q.1).0) && stat_eq((p.1).1, (q.1).1) && beq((p.2).0, (q.2).0) && (p.2).1 == (q.2).1 && beq((p.2).2, (q.2).2) });
    }

    /// concatenate! (short syntax): same statistics as the stand-alone estimators, for new(), default(), collect()
    fn concat_short [6] (i) {
        let xs: [f64; 3] = DATA_A;
        let n = i.usize();
        vassume!(i, n <= 3);
        let how = i.u8();
        vassume!(i, how <= 2);
        let mut mn = Min::new(); let mut mx = Max::new(); let mut me = Mean::new();
        for j in 0..3 { if j < n { mn.add(xs[j]); mx.add(xs[j]); me.add(xs[j]); } }
        let c: CatShort = match how {
            0 => { let mut c = CatShort::new(); for j in 0..3 { if j < n { c.add(xs[j]); } } c }
            1 => { let mut c = CatShort::default(); for j in 0..3 { if j < n { c.add(xs[j]); } } c }
            _ => xs[..n].iter().copied().collect(),
        };
        vassert!(i, stat_eq(c.min(), mn.min()) && stat_eq(c.max(), mx.max()) && stat_eq(c.mean(), me.mean()), "C20:concatenate-reports-underlying-statistics");
        vcover!(i, n == 3 && how == 2, "collected-three");
        vcover!(i, n == 0, "empty");
    }
    /// concatenate! (long syntax, several statistics per estimator, Quantile included)
    fn concat_long [8] (i) {
        let xs: [f64; 3] = DATA_B;
        let n = i.usize();
        vassume!(i, n <= 3);
        let by_collect = i.bool();
        let mut v = Variance::new(); let mut q = Quantile::default(); let mut k = Kurtosis::new();
        for j in 0..3 { if j < n { v.add(xs[j]); q.add(xs[j]); k.add(xs[j]); } }
        let c: CatLong = if by_collect { xs[..n].iter().collect() } else { let mut c = CatLong::new(); for j in 0..3 { if j < n { c.add(xs[j]); } } c };
        vassert!(i, stat_eq(c.mean(), v.mean()) && stat_eq(c.sample_variance(), v.sample_variance())
            && stat_eq(c.population_variance(), v.population_variance()) && stat_eq(c.error(), v.error()), "C20:concatenate-reports-underlying-statistics");
        vassert!(i, stat_eq(c.quantile(), q.quantile()), "C20:concatenate-reports-underlying-statistics");
        vassert!(i, stat_eq(c.kurtosis(), k.kurtosis()) && stat_eq(c.skewness(), k.skewness()), "C20:concatenate-reports-underlying-statistics");
        vcover!(i, n == 3 && by_collect, "collected-three");
    }
}
