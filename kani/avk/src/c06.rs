//! C06 — a histogram counts each sample in the unique half-open bin that contains it.
use crate::hists::*;
use crate::inp::Inp;
use average::Histogram as _;

macro_rules! c06_body {
    ($i:ident, $H:ty, $LEN:expr, $nan_ok:expr) => {{
        const LEN: usize = $LEN;
        let mut e = [0.0f64; LEN + 1];
        for j in 0..=LEN { e[j] = $i.f64(); }
        let built = <$H>::from_ranges(e.iter().copied());
        vassume!($i, built.is_ok());
        let h0 = built.unwrap();
        // arbitrary counts: one step from any state of the counters
        let mut cnt = [0u64; LEN];
        for j in 0..LEN { cnt[j] = $i.u64(); vassume!($i, cnt[j] < u64::MAX); }
        let (r, _) = h0.__verif_parts();
        let mut h = <$H>::__verif_from_parts(r, cnt);
        let x = $i.f64();
        if !$nan_ok { vassume!($i, !x.is_nan()); }
        let inside = e[0] <= x && x < e[LEN];
        vassert!($i, h.range_min() == e[0] || (h.range_min() == 0.0 && e[0] == 0.0), "C06:range-min-is-first-edge");
        vassert!($i, h.range_max() == e[LEN], "C06:range-max-is-last-edge");
        let f = h.find(x);
        vassert!($i, f.is_ok() == inside, "C06:find-ok-iff-in-range");
        if let Ok(k) = f {
            vassert!($i, k < LEN, "C06:bin-index-in-bounds");
            if k < LEN {
                vassert!($i, e[k] <= x && x < e[k + 1], "C06:selected-bin-contains-sample");
            }
        }
        let a = h.add(x);
        vassert!($i, a.is_ok() == f.is_ok(), "C06:add-agrees-with-find");
        let (_, after) = h.__verif_parts();
        let mut total_before: u128 = 0;
        let mut total_after: u128 = 0;
        for j in 0..LEN {
            total_before += cnt[j] as u128;
            total_after += after[j] as u128;
            let expect = match f { Ok(k) if k == j => cnt[j] + 1, _ => cnt[j] };
            vassert!($i, after[j] == expect, "C06:only-selected-bin-incremented");
        }
        vassert!($i, total_after == total_before + (if a.is_ok() { 1 } else { 0 }), "C06:total-counts-successful-adds");
        vassert!($i, h.bins()[0] == after[0], "C06:bins-view-is-state");
        vcover!($i, f.is_ok() && e[0] == f64::NEG_INFINITY, "infinite-lower-edge-hit");
        vcover!($i, f.is_err() && x == e[LEN], "sample-on-upper-edge-rejected");
        vcover!($i, x.is_nan(), "nan-sample");
    }};
}

macro_rules! c06_dup {
    ($i:ident, $H:ty, $LEN:expr) => {{
        // directed: at least one repeated edge and a sample sitting exactly on it
        const LEN: usize = $LEN;
        let mut e = [0.0f64; LEN + 1];
        for j in 0..=LEN { e[j] = $i.f64(); }
        let built = <$H>::from_ranges(e.iter().copied());
        vassume!($i, built.is_ok());
        let h = built.unwrap();
        let d = $i.usize();
        vassume!($i, d < LEN && e[d] == e[d + 1]);
        let x = e[d];
        match h.find(x) {
            Ok(k) => {
                vassert!($i, k < LEN && e[k] <= x && x < e[k + 1], "C06:zero-width-bin-never-selected");
            }
            Err(_) => {
                vassert!($i, !(e[0] <= x && x < e[LEN]), "C06:find-ok-iff-in-range");
            }
        }
        vcover!($i, h.find(x).is_ok(), "sample-on-repeated-edge-accepted");
    }};
}

/// Large histograms: the edges are concrete (j - 3 for j = 0..=LEN, optionally -inf / +inf at the ends and one repeated edge at a
/// symbolic position), the sample is any double. A bin search whose behaviour depends on the SIZE of the histogram (block
/// skipping, narrow index types, bounded step counts) shows here; with symbolic edges LEN 10 is the practical limit.
macro_rules! c06_fixed {
    ($i:ident, $H:ty, $LEN:expr) => {{
        const LEN: usize = $LEN;
        let mut e = [0.0f64; LEN + 1];
        for j in 0..=LEN { e[j] = (j as f64) - 3.0; }
        if $i.bool() { e[0] = f64::NEG_INFINITY; }
        if $i.bool() { e[LEN] = f64::INFINITY; }
        let d = $i.usize();
        vassume!($i, d < LEN);
        let dup = $i.bool();
        if dup && d >= 1 && d + 1 < LEN { e[d + 1] = e[d]; }
        let mut h = <$H>::from_ranges(e.iter().copied()).unwrap();
        let x = $i.f64();
        let inside = e[0] <= x && x < e[LEN];
        let f = h.find(x);
        vassert!($i, f.is_ok() == inside, "C06:find-ok-iff-in-range");
        if let Ok(k) = f {
            vassert!($i, k < LEN, "C06:bin-index-in-bounds");
            if k < LEN {
                vassert!($i, e[k] <= x && x < e[k + 1], "C06:selected-bin-contains-sample");
            }
        }
        let a = h.add(x);
        vassert!($i, a.is_ok() == f.is_ok(), "C06:add-agrees-with-find");
        let (_, after) = h.__verif_parts();
        let mut total: u64 = 0;
        for j in 0..LEN {
            total += after[j];
            let expect = match f { Ok(k) if k == j => 1, _ => 0 };
            vassert!($i, after[j] == expect, "C06:only-selected-bin-incremented");
        }
        vassert!($i, total == (if a.is_ok() { 1 } else { 0 }), "C06:total-counts-successful-adds");
        vcover!($i, f.is_ok() && x == 13.0, "sample-on-edge-16");
        vcover!($i, f.is_ok() && dup && x == e[d], "sample-on-repeated-edge");
        vcover!($i, x.is_nan(), "nan-sample");
    }};
}

harnesses! {
    fn fixed20 [23] (i) { c06_fixed!(i, H20, 20) }
    fn fixed33 [36] (i) { c06_fixed!(i, H33, 33) }
    fn fixed100 [103] (i) { c06_fixed!(i, H100, 100) }
    /// samples range over all doubles incl. NaN (rejected with SampleOutOfRangeError, never a panic)
    fn len1 [5] (i) { c06_body!(i, H1, 1, true) }
    fn len2 [6] (i) { c06_body!(i, H2, 2, true) }
    fn len3 [7] (i) { c06_body!(i, H3, 3, true) }
    fn len4 [8] (i) { c06_body!(i, H4, 4, true) }
    fn len10 [14] (i) { c06_body!(i, H10, 10, true) }
    fn dup3 [7] (i) { c06_dup!(i, H3, 3) }
    fn dup4 [8] (i) { c06_dup!(i, H4, 4) }
    fn dup10 [14] (i) { c06_dup!(i, H10, 10) }
}
