//! C11 — the empty estimator is an exact identity of merge and lengths add exactly.
use crate::hists::*;
use crate::inp::Inp;
use crate::types::*;
use crate::util::beq;
use average::{Covariance, Histogram as _, Kurtosis, Mean, Merge, Skewness, Variance, WeightedMean, WeightedMeanWithError};

fn beq_arr<const N: usize>(a: &[f64; N], b: &[f64; N]) -> bool {
    let mut ok = true;
    for j in 0..N { ok = ok && beq(a[j], b[j]); }
    ok
}

/// both NaN, or identical bits
fn stat_eq(a: f64, b: f64) -> bool {
    (a.is_nan() && b.is_nan()) || beq(a, b)
}

harnesses! {
    fn mean [3] (i) {
        let a = mean_state(i);
        let (pa, pn) = a.__verif_parts();
        let e = Mean::new();
        let mut l = a.clone(); l.merge(&e);
        let (la, ln) = l.__verif_parts();
        vassert!(i, beq(la, pa) && ln == pn, "C11:merge-empty-into-a-is-identity");
        let mut r = Mean::default(); r.merge(&a);
        let (ra, rn) = r.__verif_parts();
        vassert!(i, beq(ra, pa) && rn == pn, "C11:merge-a-into-empty-equals-a");
        vassert!(i, stat_eq(r.mean(), a.mean()) && stat_eq(l.mean(), a.mean()), "C11:statistics-unchanged");
        let (aa, an) = a.__verif_parts();
        vassert!(i, beq(aa, pa) && an == pn, "C11:merge-leaves-argument");
        vassert!(i, a.is_empty() == (a.len() == 0) && e.is_empty() && e.len() == 0, "C11:is-empty-iff-len-zero");
        vcover!(i, pn > 1, "non-empty-state");
    }
    fn mean_len [3] (i) {
        let a = mean_state(i);
        let b = mean_state(i);
        let (ba, bn) = b.__verif_parts();
        let mut m = a.clone(); m.merge(&b);
        vassert!(i, m.len() == a.len() + b.len(), "C11:merged-len-is-sum");
        vassert!(i, m.is_empty() == (m.len() == 0), "C11:is-empty-iff-len-zero");
        let (ca, cn) = b.__verif_parts();
        vassert!(i, beq(ca, ba) && cn == bn, "C11:merge-leaves-argument");
        vcover!(i, a.len() > 0 && b.len() > 0, "both-non-empty");
    }
    fn variance [3] (i) {
        let a = var_state(i);
        let p = a.__verif_parts();
        let e = Variance::new();
        let mut l = a.clone(); l.merge(&e);
        let q = l.__verif_parts();
        vassert!(i, beq(q.0, p.0) && q.1 == p.1 && beq(q.2, p.2), "C11:merge-empty-into-a-is-identity");
        let mut r = Variance::default(); r.merge(&a);
        let q = r.__verif_parts();
        vassert!(i, beq(q.0, p.0) && q.1 == p.1 && beq(q.2, p.2), "C11:merge-a-into-empty-equals-a");
        let q = a.__verif_parts();
        vassert!(i, beq(q.0, p.0) && q.1 == p.1 && beq(q.2, p.2), "C11:merge-leaves-argument");
        vassert!(i, a.is_empty() == (a.len() == 0) && e.is_empty(), "C11:is-empty-iff-len-zero");
        vcover!(i, p.1 > 1 && p.2 > 0.0, "non-empty-state");
    }
    fn variance_len [3] (i) {
        let a = var_state(i);
        let b = var_state(i);
        let p = b.__verif_parts();
        let mut m = a.clone(); m.merge(&b);
        vassert!(i, m.len() == a.len() + b.len(), "C11:merged-len-is-sum");
        vassert!(i, m.is_empty() == (m.len() == 0), "C11:is-empty-iff-len-zero");
        let q = b.__verif_parts();
        vassert!(i, beq(q.0, p.0) && q.1 == p.1 && beq(q.2, p.2), "C11:merge-leaves-argument");
        vcover!(i, a.len() > 0 && b.len() > 0, "both-non-empty");
    }
    fn skewness [3] (i) {
        let a = skew_state(i);
        let p = a.__verif_parts();
        let e = Skewness::new();
        let mut l = a.clone(); l.merge(&e);
        let q = l.__verif_parts();
        vassert!(i, beq(q.0, p.0) && q.1 == p.1 && beq(q.2, p.2) && beq(q.3, p.3), "C11:merge-empty-into-a-is-identity");
        let mut r = Skewness::default(); r.merge(&a);
        let q = r.__verif_parts();
        vassert!(i, beq(q.0, p.0) && q.1 == p.1 && beq(q.2, p.2) && beq(q.3, p.3), "C11:merge-a-into-empty-equals-a");
        let q = a.__verif_parts();
        vassert!(i, beq(q.0, p.0) && q.1 == p.1 && beq(q.2, p.2) && beq(q.3, p.3), "C11:merge-leaves-argument");
        vassert!(i, a.is_empty() == (a.len() == 0) && e.is_empty(), "C11:is-empty-iff-len-zero");
        vcover!(i, p.1 > 1 && p.3 < 0.0, "non-empty-negative-skew");
    }
    fn skewness_len [3] (i) {
        let a = skew_state(i);
        let b = skew_state(i);
        let p = b.__verif_parts();
        let mut m = a.clone(); m.merge(&b);
        vassert!(i, m.len() == a.len() + b.len(), "C11:merged-len-is-sum");
        vassert!(i, m.is_empty() == (m.len() == 0), "C11:is-empty-iff-len-zero");
        let q = b.__verif_parts();
        vassert!(i, beq(q.0, p.0) && q.1 == p.1 && beq(q.2, p.2) && beq(q.3, p.3), "C11:merge-leaves-argument");
        vcover!(i, a.len() > 0 && b.len() > 0, "both-non-empty");
    }
    fn kurtosis [3] (i) {
        let a = kurt_state(i);
        let p = a.__verif_parts();
        let e = Kurtosis::new();
        let mut l = a.clone(); l.merge(&e);
        let q = l.__verif_parts();
        vassert!(i, beq(q.0, p.0) && q.1 == p.1 && beq(q.2, p.2) && beq(q.3, p.3) && beq(q.4, p.4), "C11:merge-empty-into-a-is-identity");
        let mut r = Kurtosis::default(); r.merge(&a);
        let q = r.__verif_parts();
        vassert!(i, beq(q.0, p.0) && q.1 == p.1 && beq(q.2, p.2) && beq(q.3, p.3) && beq(q.4, p.4), "C11:merge-a-into-empty-equals-a");
        let q = a.__verif_parts();
        vassert!(i, beq(q.0, p.0) && q.1 == p.1 && beq(q.2, p.2) && beq(q.3, p.3) && beq(q.4, p.4), "C11:merge-leaves-argument");
        vassert!(i, a.is_empty() == (a.len() == 0) && e.is_empty(), "C11:is-empty-iff-len-zero");
        vcover!(i, p.1 > 1 && p.4 > 0.0, "non-empty-state");
    }
    fn kurtosis_len [3] (i) {
        let a = kurt_state(i);
        let b = kurt_state(i);
        let p = b.__verif_parts();
        let mut m = a.clone(); m.merge(&b);
        vassert!(i, m.len() == a.len() + b.len(), "C11:merged-len-is-sum");
        vassert!(i, m.is_empty() == (m.len() == 0), "C11:is-empty-iff-len-zero");
        let q = b.__verif_parts();
        vassert!(i, beq(q.0, p.0) && q.1 == p.1 && beq(q.2, p.2) && beq(q.3, p.3) && beq(q.4, p.4), "C11:merge-leaves-argument");
        vcover!(i, a.len() > 0 && b.len() > 0, "both-non-empty");
    }
    fn moments4 [6] (i) {
        let a = m4_state(i);
        let p = a.__verif_parts();
        let e = M4::new();
        let mut l = a.clone(); l.merge(&e);
        let q = l.__verif_parts();
        vassert!(i, q.0 == p.0 && beq(q.1, p.1) && beq_arr(&q.2, &p.2), "C11:merge-empty-into-a-is-identity");
        let mut r = M4::default(); r.merge(&a);
        let q = r.__verif_parts();
        vassert!(i, q.0 == p.0 && beq(q.1, p.1) && beq_arr(&q.2, &p.2), "C11:merge-a-into-empty-equals-a");
        let q = a.__verif_parts();
        vassert!(i, q.0 == p.0 && beq(q.1, p.1) && beq_arr(&q.2, &p.2), "C11:merge-leaves-argument");
        vassert!(i, a.is_empty() == (a.len() == 0) && e.is_empty(), "C11:is-empty-iff-len-zero");
        vcover!(i, p.0 > 1, "non-empty-state");
    }
    fn moments5 [7] (i) {
        let a = m5_state(i);
        let p = a.__verif_parts();
        let e = M5::new();
        let mut l = a.clone(); l.merge(&e);
        let q = l.__verif_parts();
        vassert!(i, q.0 == p.0 && beq(q.1, p.1) && beq_arr(&q.2, &p.2), "C11:merge-empty-into-a-is-identity");
        let mut r = M5::default(); r.merge(&a);
        let q = r.__verif_parts();
        vassert!(i, q.0 == p.0 && beq(q.1, p.1) && beq_arr(&q.2, &p.2), "C11:merge-a-into-empty-equals-a");
        let q = a.__verif_parts();
        vassert!(i, q.0 == p.0 && beq(q.1, p.1) && beq_arr(&q.2, &p.2), "C11:merge-leaves-argument");
        vcover!(i, p.0 > 1, "non-empty-state");
    }
    fn moments4_len [6] (i) {
        let a = m4_state(i);
        let b = m4_state(i);
        let p = b.__verif_parts();
        let mut m = a.clone(); m.merge(&b);
        vassert!(i, m.len() == a.len() + b.len(), "C11:merged-len-is-sum");
        vassert!(i, m.is_empty() == (m.len() == 0), "C11:is-empty-iff-len-zero");
        let q = b.__verif_parts();
        vassert!(i, q.0 == p.0 && beq(q.1, p.1) && beq_arr(&q.2, &p.2), "C11:merge-leaves-argument");
        vcover!(i, a.len() > 0 && b.len() > 0, "both-non-empty");
    }
    fn covariance [3] (i) {
        let a = cov_state(i);
        let p = a.__verif_parts();
        let e = Covariance::new();
        let mut l = a.clone(); l.merge(&e);
        let q = l.__verif_parts();
        vassert!(i, beq(q.0, p.0) && beq(q.1, p.1) && beq(q.2, p.2) && beq(q.3, p.3) && beq(q.4, p.4) && q.5 == p.5, "C11:merge-empty-into-a-is-identity");
        let mut r = Covariance::default(); r.merge(&a);
        let q = r.__verif_parts();
        vassert!(i, beq(q.0, p.0) && beq(q.1, p.1) && beq(q.2, p.2) && beq(q.3, p.3) && beq(q.4, p.4) && q.5 == p.5, "C11:merge-a-into-empty-equals-a");
        let q = a.__verif_parts();
        vassert!(i, beq(q.0, p.0) && beq(q.1, p.1) && beq(q.2, p.2) && beq(q.3, p.3) && beq(q.4, p.4) && q.5 == p.5, "C11:merge-leaves-argument");
        vassert!(i, a.is_empty() == (a.len() == 0) && e.is_empty(), "C11:is-empty-iff-len-zero");
        vcover!(i, p.5 > 1 && p.4 < 0.0, "non-empty-negative-covariance");
    }
    fn covariance_len [3] (i) {
        let a = cov_state(i);
        let b = cov_state(i);
        let p = b.__verif_parts();
        let mut m = a.clone(); m.merge(&b);
        vassert!(i, m.len() == a.len() + b.len(), "C11:merged-len-is-sum");
        vassert!(i, m.is_empty() == (m.len() == 0), "C11:is-empty-iff-len-zero");
        let q = b.__verif_parts();
        vassert!(i, beq(q.0, p.0) && beq(q.1, p.1) && beq(q.2, p.2) && beq(q.3, p.3) && beq(q.4, p.4) && q.5 == p.5, "C11:merge-leaves-argument");
        vcover!(i, a.len() > 0 && b.len() > 0, "both-non-empty");
    }
    fn weighted_mean [3] (i) {
        let a = wm_state(i);
        let e = WeightedMean::new();
        let mut l = a.clone(); l.merge(&e);
        vassert!(i, stat_eq(l.mean(), a.mean()) && beq(l.sum_weights(), a.sum_weights()), "C11:merge-empty-into-a-is-identity");
        let mut r = WeightedMean::default(); r.merge(&a);
        vassert!(i, stat_eq(r.mean(), a.mean()) && beq(r.sum_weights(), a.sum_weights()), "C11:merge-a-into-empty-equals-a");
        vassert!(i, e.is_empty() && e.sum_weights() == 0.0, "C11:is-empty-iff-len-zero");
        vcover!(i, a.sum_weights() > 0.0, "non-empty-state");
    }
    fn weighted_mean_with_error [3] (i) {
        let a = wmwe_state(i);
        let e = WeightedMeanWithError::new();
        let mut l = a.clone(); l.merge(&e);
        let mut r = WeightedMeanWithError::default(); r.merge(&a);
        let pa = a.__verif_parts();
        for (t, left) in [(&l, true), (&r, false)] {
            // the unweighted part must be bit-identical as a state; the weighted part as reported statistics
            // (an all-zero-weight operand may leave a different, unobservable weighted average behind)
            let pt = t.__verif_parts();
            let ok = stat_eq(t.weighted_mean(), a.weighted_mean())
                && beq(t.sum_weights(), a.sum_weights())
                && beq(t.sum_weights_sq(), a.sum_weights_sq())
                && beq((pt.2).0, (pa.2).0) && (pt.2).1 == (pa.2).1 && beq((pt.2).2, (pa.2).2)
                && t.len() == a.len();
            if left { vassert!(i, ok, "C11:merge-empty-into-a-is-identity"); } else { vassert!(i, ok, "C11:merge-a-into-empty-equals-a"); }
        }
        vassert!(i, a.is_empty() == (a.len() == 0) && e.is_empty() && e.len() == 0, "C11:is-empty-iff-len-zero");
        vcover!(i, a.len() > 1 && a.sum_weights() > 0.0, "non-empty-state");
        vcover!(i, a.len() > 1 && a.sum_weights() == 0.0, "non-empty-all-zero-weights");
    }
    fn weighted_mean_with_error_len [3] (i) {
        let a = wmwe_state(i);
        let b = wmwe_state(i);
        let pb = b.__verif_parts();
        let mut m = a.clone(); m.merge(&b);
        vassert!(i, m.len() == a.len() + b.len(), "C11:merged-len-is-sum");
        vassert!(i, m.is_empty() == (m.len() == 0), "C11:is-empty-iff-len-zero");
        let q = b.__verif_parts();
        vassert!(i, beq(q.0, pb.0) && beq((q.1).0, (pb.1).0) && beq((q.1).1, (pb.1).1) && (q.2).1 == (pb.2).1, "C11:merge-leaves-argument");
        vcover!(i, a.len() > 0 && b.len() > 0, "both-non-empty");
    }
    fn histogram3 [7] (i) {
        let mut e = [0.0f64; 4];
        for j in 0..4 { e[j] = i.f64(); vassume!(i, !e[j].is_nan()); }
        for j in 0..3 { vassume!(i, e[j] <= e[j + 1]); }
        let mut ca = [0u64; 3];
        let mut cb = [0u64; 3];
        for j in 0..3 { ca[j] = i.u64(); cb[j] = i.u64(); vassume!(i, ca[j] < (1 << 62) && cb[j] < (1 << 62)); }
        let a = H3::__verif_from_parts(e, ca);
        let b = H3::__verif_from_parts(e, cb);
        let z = H3::from_ranges(e.iter().copied()).unwrap();
        let mut l = a.clone(); l.merge(&z);
        let mut r = z.clone(); r.merge(&a);
        let mut m = a.clone(); m.merge(&b);
        let (le, lc) = l.__verif_parts();
        let (re, rc) = r.__verif_parts();
        let mut ta: u128 = 0; let mut tb: u128 = 0; let mut tm: u128 = 0;
        for j in 0..3 {
            vassert!(i, lc[j] == ca[j], "C11:merge-empty-into-a-is-identity");
            vassert!(i, rc[j] == ca[j], "C11:merge-a-into-empty-equals-a");
            ta += ca[j] as u128; tb += cb[j] as u128; tm += m.bins()[j] as u128;
        }
        for j in 0..4 { vassert!(i, beq(le[j], e[j]) && beq(re[j], e[j]), "C11:merge-keeps-edges"); }
        vassert!(i, tm == ta + tb, "C11:merged-len-is-sum");
        let (_, bc) = b.__verif_parts();
        vassert!(i, bc[0] == cb[0] && bc[1] == cb[1] && bc[2] == cb[2], "C11:merge-leaves-argument");
        vcover!(i, ta > 0 && tb > 0 && e[1] == e[2], "both-non-empty-repeated-edge");
    }
}
