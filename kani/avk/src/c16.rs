//! C16 — empty, one-observation and constant samples follow the documented contract.
use crate::inp::Inp;
use crate::types::*;
use crate::util::dom_f64;
use average::{Covariance, Estimate, Kurtosis, Max, Mean, Min, Quantile, Skewness, Variance, WeightedMean, WeightedMeanWithError};

fn zero(x: f64) -> bool { x == 0.0 }

/// a constant-sample state of the moment family: n >= 1 observations all equal to x
fn const_n<I: Inp>(i: &mut I) -> (u64, f64) {
    let n = i.u64();
    vassume!(i, n >= 1 && n < MAXN);
    (n, dom_f64(i))
}

fn single_weighted<I: Inp>(i: &mut I, w: f64) {
    let x = dom_f64(i);
    let mut a = WeightedMean::new(); a.add(x, w);
    let mut e = WeightedMeanWithError::new(); e.add(x, w);
    if w > 0.0 {
        vassert!(i, a.mean() == x && a.sum_weights() == w, "C16:single-weighted-mean-is-x");
        vassert!(i, e.weighted_mean() == x && e.unweighted_mean() == x && e.sum_weights() == w && e.effective_len() == 1.0
            && zero(e.population_variance()) && e.sample_variance().is_nan() && e.len() == 1, "C16:single-weighted-mean-with-error");
    } else {
        vassert!(i, a.mean().is_nan() && zero(a.sum_weights()), "C16:zero-total-weight-mean-is-nan");
        vassert!(i, e.weighted_mean().is_nan() && e.variance_of_weighted_mean().is_nan() && e.error().is_nan()
            && e.unweighted_mean() == x && e.len() == 1 && zero(e.sum_weights()), "C16:zero-total-weight-statistics-are-nan");
    }
    vcover!(i, x < 0.0, "negative-x");
}

harnesses! {
    /// every accessor of every estimator on the empty sample (constructed by new() and by default())
    fn empty [4] (i) {
        let by_default = i.bool();
        let m = if by_default { Mean::default() } else { Mean::new() };
        vassert!(i, m.mean().is_nan() && m.estimate().is_nan() && m.len() == 0 && m.is_empty(), "C16:empty-mean-is-nan");
        let v = if by_default { Variance::default() } else { Variance::new() };
        vassert!(i, v.mean().is_nan() && v.population_variance().is_nan() && v.sample_variance().is_nan()
            && v.variance_of_mean().is_nan() && v.error().is_nan() && v.estimate().is_nan() && v.len() == 0, "C16:empty-variance-is-nan");
        let s = if by_default { Skewness::default() } else { Skewness::new() };
        vassert!(i, s.mean().is_nan() && s.population_variance().is_nan() && s.sample_variance().is_nan()
            && s.error_mean().is_nan() && s.skewness().is_nan() && s.estimate().is_nan() && s.len() == 0, "C16:empty-skewness-is-nan");
        let k = if by_default { Kurtosis::default() } else { Kurtosis::new() };
        vassert!(i, k.mean().is_nan() && k.population_variance().is_nan() && k.sample_variance().is_nan()
            && k.error_mean().is_nan() && k.skewness().is_nan() && k.kurtosis().is_nan() && k.estimate().is_nan() && k.len() == 0, "C16:empty-kurtosis-is-nan");
        let c = if by_default { Covariance::default() } else { Covariance::new() };
        vassert!(i, c.mean_x().is_nan() && c.mean_y().is_nan() && c.population_covariance().is_nan() && c.sample_covariance().is_nan()
            && c.pearson().is_nan() && c.population_variance_x().is_nan() && c.population_variance_y().is_nan()
            && c.sample_variance_x().is_nan() && c.sample_variance_y().is_nan() && c.len() == 0 && c.is_empty(), "C16:empty-covariance-is-nan");
        let q = if by_default { Quantile::default() } else { Quantile::new(0.5) };
        vassert!(i, q.quantile().is_nan() && q.estimate().is_nan() && q.len() == 0 && q.is_empty(), "C16:empty-quantile-is-nan");
        let w = if by_default { WeightedMean::default() } else { WeightedMean::new() };
        vassert!(i, w.mean().is_nan() && zero(w.sum_weights()) && w.is_empty(), "C16:empty-weighted-mean");
        let e = if by_default { WeightedMeanWithError::default() } else { WeightedMeanWithError::new() };
        vassert!(i, e.weighted_mean().is_nan() && e.unweighted_mean().is_nan() && zero(e.sum_weights()) && zero(e.sum_weights_sq())
            && zero(e.effective_len()) && e.population_variance().is_nan() && e.sample_variance().is_nan()
            && e.variance_of_weighted_mean().is_nan() && e.error().is_nan() && e.len() == 0 && e.is_empty(), "C16:empty-weighted-mean-with-error");
        let mn = if by_default { Min::default() } else { Min::new() };
        let mx = if by_default { Max::default() } else { Max::new() };
        vassert!(i, mn.min() == f64::INFINITY && mx.max() == f64::NEG_INFINITY, "C16:empty-min-max-are-infinities");
        let t = if by_default { M4::default() } else { M4::new() };
        vassert!(i, t.mean().is_nan() && t.central_moment(0) == 1.0 && zero(t.central_moment(1)) && t.central_moment(2).is_nan()
            && t.central_moment(3).is_nan() && t.central_moment(4).is_nan() && t.sample_variance().is_nan()
            && t.sample_skewness().is_nan() && t.sample_excess_kurtosis().is_nan() && zero(t.standardized_moment(0))
            && zero(t.standardized_moment(1)) && t.standardized_moment(2) == 1.0 && t.len() == 0 && t.is_empty(), "C16:empty-moments");
    }

    /// one observation x (C01 domain): mean exactly x, every spread statistic exactly 0, sample statistics NaN
    fn single [4] (i) {
        let x = dom_f64(i);
        let mut m = Mean::new(); m.add(x);
        vassert!(i, m.mean() == x && m.len() == 1, "C16:single-mean-is-x");
        let mut v = Variance::new(); v.add(x);
        vassert!(i, v.mean() == x && zero(v.population_variance()) && v.sample_variance().is_nan()
            && zero(v.variance_of_mean()) && zero(v.error()), "C16:single-variance");
        let mut s = Skewness::new(); s.add(x);
        vassert!(i, s.mean() == x && zero(s.population_variance()) && s.sample_variance().is_nan() && zero(s.error_mean())
            && zero(s.skewness()), "C16:single-skewness");
        let mut k = Kurtosis::new(); k.add(x);
        vassert!(i, k.mean() == x && zero(k.population_variance()) && k.sample_variance().is_nan() && zero(k.error_mean())
            && zero(k.skewness()) && zero(k.kurtosis()), "C16:single-kurtosis");
        let mut t = M4::new(); t.add(x);
        vassert!(i, t.mean() == x && t.central_moment(0) == 1.0 && zero(t.central_moment(1)) && zero(t.central_moment(2))
            && zero(t.central_moment(3)) && zero(t.central_moment(4)) && t.sample_variance().is_nan()
            && zero(t.sample_skewness()) && t.sample_excess_kurtosis().is_nan() && t.standardized_moment(0) == 1.0
            && zero(t.standardized_moment(1)) && t.standardized_moment(2) == 1.0, "C16:single-moments");
        let y = dom_f64(i);
        let mut c = Covariance::new(); c.add(x, y);
        vassert!(i, c.mean_x() == x && c.mean_y() == y && zero(c.population_covariance()) && zero(c.population_variance_x())
            && zero(c.population_variance_y()) && c.sample_covariance().is_nan() && c.sample_variance_x().is_nan()
            && c.sample_variance_y().is_nan() && c.pearson().is_nan() && c.len() == 1, "C16:single-covariance");
        let mut q = Quantile::new(0.5); q.add(x);
        vassert!(i, q.quantile() == x && q.len() == 1, "C16:single-quantile-is-x");
        vcover!(i, x < 0.0 && y > 0.0, "negative-x");
    }

    /// weighted estimators with one observation of weight 0 (total weight zero)
    fn single_weighted_zero [4] (i) { single_weighted(i, 0.0); }
    /// weighted estimators with one observation of weight 1, 0.25 or 3 (concrete weights keep the divider constant-folded)
    fn single_weighted_one [4] (i) { single_weighted(i, 1.0); }
    fn single_weighted_quarter [4] (i) { single_weighted(i, 0.25); }
    fn single_weighted_three [4] (i) { single_weighted(i, 3.0); }

    /// sample statistics below their minimum sample size (sizes 2 and 3 built through the public API)
    fn small_sentinels [6] (i) {
        let n = i.u8();
        vassume!(i, n >= 2 && n <= 3);
        let mut t = M4::new();
        let mut c = Covariance::new();
        for j in 0..3u8 {
            if j < n { let x = dom_f64(i); t.add(x); c.add(x, x); }
        }
        vassert!(i, t.sample_excess_kurtosis().is_nan(), "C16:sample-excess-kurtosis-nan-below-four");
        vassert!(i, t.central_moment(0) == 1.0 && zero(t.central_moment(1)), "C16:central-moment-0-and-1");
        vassert!(i, t.standardized_moment(0) == n as f64 && zero(t.standardized_moment(1)) && t.standardized_moment(2) == 1.0, "C16:standardized-moment-0-1-2");
        vassert!(i, !t.sample_variance().is_nan() && !c.sample_covariance().is_nan(), "C16:sample-variance-defined-from-two");
        vassert!(i, t.len() == n as u64 && c.len() == n as u64, "C16:len-counts-observations");
    }

    // constant streams: inductive step (n copies of x) + add(x) => (n+1 copies of x); base step from new() is `single`
    fn const_mean_variance [3] (i) {
        let (n, x) = const_n(i);
        let mut m = Mean::__verif_from_parts(x, n); m.add(x);
        let (a, k) = m.__verif_parts();
        vassert!(i, a == x && k == n + 1 && m.mean() == x, "C16:constant-stream-mean-exact");
        let mut v = Variance::__verif_from_parts(x, n, 0.0); v.add(x);
        let (a, k, s2) = v.__verif_parts();
        vassert!(i, a == x && k == n + 1 && zero(s2), "C16:constant-stream-variance-state");
        vassert!(i, v.mean() == x && zero(v.population_variance()) && zero(v.sample_variance()) && zero(v.variance_of_mean()) && zero(v.error()), "C16:constant-stream-variance-exact-zero");
        vcover!(i, n > 1000 && x < -1.0, "long-negative-constant-stream");
    }
    fn const_skewness [3] (i) {
        let (n, x) = const_n(i);
        let mut s = Skewness::__verif_from_parts(x, n, 0.0, 0.0); s.add(x);
        let (a, k, s2, s3) = s.__verif_parts();
        vassert!(i, a == x && k == n + 1 && zero(s2) && zero(s3), "C16:constant-stream-skewness-state");
        vassert!(i, s.mean() == x && zero(s.population_variance()) && zero(s.skewness()) && zero(s.error_mean()), "C16:constant-stream-skewness-exact-zero");
        vcover!(i, n > 1000, "long-constant-stream");
    }
    fn const_kurtosis [3] (i) {
        let (n, x) = const_n(i);
        let mut s = Kurtosis::__verif_from_parts(x, n, 0.0, 0.0, 0.0); s.add(x);
        let (a, k, s2, s3, s4) = s.__verif_parts();
        vassert!(i, a == x && k == n + 1 && zero(s2) && zero(s3) && zero(s4), "C16:constant-stream-kurtosis-state");
        vassert!(i, s.mean() == x && zero(s.population_variance()) && zero(s.skewness()) && zero(s.kurtosis()), "C16:constant-stream-kurtosis-exact-zero");
        vcover!(i, n > 1000, "long-constant-stream");
    }
    fn const_moments4 [6] (i) {
        let (n, x) = const_n(i);
        let mut s = M4::__verif_from_parts(n, x, [0.0; 3]); s.add(x);
        let (k, a, m) = s.__verif_parts();
        vassert!(i, a == x && k == n + 1 && zero(m[0]) && zero(m[1]) && zero(m[2]), "C16:constant-stream-moments-state");
        vassert!(i, s.mean() == x && zero(s.central_moment(2)) && zero(s.central_moment(3)) && zero(s.central_moment(4)), "C16:constant-stream-central-moments-exact-zero");
        vcover!(i, n > 1000, "long-constant-stream");
    }
    fn const_moments5 [7] (i) {
        let (n, x) = const_n(i);
        let mut s = M5::__verif_from_parts(n, x, [0.0; 4]); s.add(x);
        let (k, a, m) = s.__verif_parts();
        vassert!(i, a == x && k == n + 1 && zero(m[0]) && zero(m[1]) && zero(m[2]) && zero(m[3]), "C16:constant-stream-moments-state");
        vcover!(i, n > 1000, "long-constant-stream");
    }
    fn const_covariance [3] (i) {
        let (n, x) = const_n(i);
        let y = dom_f64(i);
        let mut c = Covariance::__verif_from_parts(x, 0.0, y, 0.0, 0.0, n); c.add(x, y);
        let p = c.__verif_parts();
        vassert!(i, p.0 == x && zero(p.1) && p.2 == y && zero(p.3) && zero(p.4) && p.5 == n + 1, "C16:constant-stream-covariance-state");
        vassert!(i, c.mean_x() == x && c.mean_y() == y && zero(c.population_covariance()) && zero(c.population_variance_x()), "C16:constant-stream-covariance-exact-zero");
        vcover!(i, n > 1000, "long-constant-stream");
    }
    /// standardized_moment(p >= 3) at zero variance is the one documented panic
    fn std_moment_zero_variance [6] (i) {
        let (n, x) = const_n(i);
        let s = M4::__verif_from_parts(n, x, [0.0; 3]);
        let p = i.usize();
        vassume!(i, p == 3 || p == 4);
        let r = s.standardized_moment(p);
        vunreachable!(i, "must-be-unreachable:C16:standardized-moment-zero-variance-did-not-assert");
        let _ = r;
    }
}
