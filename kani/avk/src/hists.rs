//! Histogram types instantiated by the crate's own macro for the harnesses.
use average::define_histogram;
define_histogram!(h1, 1);
define_histogram!(h2, 2);
define_histogram!(h3, 3);
define_histogram!(h4, 4);
define_histogram!(h5, 5);
define_histogram!(h20, 20);
define_histogram!(h33, 33);
define_histogram!(h100, 100);
pub use average::Histogram10 as H10;
pub type H1 = h1::Histogram;
pub type H2 = h2::Histogram;
pub type H3 = h3::Histogram;
pub type H4 = h4::Histogram;
pub type H5 = h5::Histogram;
pub type H20 = h20::Histogram;
pub type H33 = h33::Histogram;
pub type H100 = h100::Histogram;
