//! C17 — variances are never negative and means stay within the data range (no restriction on conditioning).
use crate::hists::*;
use crate::inp::Inp;
use crate::types::*;
use average::{Covariance, Estimate, Histogram as _, Mean, Merge, Variance, WeightedMeanWithError};

fn big<I: Inp>(i: &mut I) -> f64 {
    let x = i.f64();
    vassume!(i, x.is_finite() && x.abs() <= 1e150);
    x
}

/// m * 2^-k by exponent arithmetic on the bit pattern (0 if that would underflow): no multiplier for the solver
fn scale_down(m: f64, k: u64) -> f64 {
    let b = m.abs().to_bits();
    if (b >> 52) > k { f64::from_bits(b - (k << 52)) } else { 0.0 }
}

fn nonneg_state_sum<I: Inp>(i: &mut I) -> f64 {
    let s = i.f64();
    vassume!(i, s.is_finite() && s >= 0.0 && s <= 1e300);
    s
}

harnesses! {
    /// Variance: one add from an arbitrary state keeps the sum of squares non-negative and non-decreasing
    fn variance_add_sign [3] (i) {
        let n = i.u64();
        vassume!(i, n < MAXN);
        let avg = big(i);
        let s2 = nonneg_state_sum(i);
        let (avg, s2) = if n == 0 { (0.0, 0.0) } else if n == 1 { (avg, 0.0) } else { (avg, s2) };
        let mut v = Variance::__verif_from_parts(avg, n, s2);
        let x = big(i);
        v.add(x);
        let (_, _, t2) = v.__verif_parts();
        vassert!(i, t2 >= s2, "C17:sum-of-squares-never-decreases");
        vassert!(i, v.population_variance() >= 0.0, "C17:population-variance-non-negative");
        vassert!(i, n == 0 || v.sample_variance() >= 0.0, "C17:sample-variance-non-negative");
        vassert!(i, v.variance_of_mean() >= 0.0 && !v.error().is_nan(), "C17:error-is-a-real-number");
        vcover!(i, n > 2 && x < avg && s2 > 0.0, "general-state-sample-below-mean");
    }
    /// Variance: merge of two arbitrary states
    fn variance_merge_sign [3] (i) {
        let (na, nb) = (i.u64(), i.u64());
        vassume!(i, na >= 1 && nb >= 1 && na < MAXN / 2 && nb < MAXN / 2);
        let (aa, ab) = (big(i), big(i));
        let (sa, sb) = (nonneg_state_sum(i), nonneg_state_sum(i));
        let mut a = Variance::__verif_from_parts(aa, na, if na == 1 { 0.0 } else { sa });
        let b = Variance::__verif_from_parts(ab, nb, if nb == 1 { 0.0 } else { sb });
        a.merge(&b);
        vassert!(i, a.population_variance() >= 0.0 && a.sample_variance() >= 0.0 && a.variance_of_mean() >= 0.0 && !a.error().is_nan(), "C17:merged-variances-non-negative");
        vcover!(i, na > 1 && nb > 1 && aa != ab, "two-general-states");
    }
    /// Covariance: x and y variances after add / merge
    fn covariance_add_sign [3] (i) {
        let n = i.u64();
        vassume!(i, n >= 1 && n < MAXN);
        let (ax, ay) = (big(i), big(i));
        let (sx, sy) = (nonneg_state_sum(i), nonneg_state_sum(i));
        let sp = big(i);
        let mut c = if n == 1 { Covariance::__verif_from_parts(ax, 0.0, ay, 0.0, 0.0, 1) } else { Covariance::__verif_from_parts(ax, sx, ay, sy, sp, n) };
        c.add(big(i), big(i));
        vassert!(i, c.population_variance_x() >= 0.0 && c.population_variance_y() >= 0.0 && c.sample_variance_x() >= 0.0 && c.sample_variance_y() >= 0.0, "C17:covariance-variances-non-negative");
        vcover!(i, n > 2, "general-state");
    }
    fn covariance_merge_sign [3] (i) {
        let (na, nb) = (i.u64(), i.u64());
        vassume!(i, na >= 1 && nb >= 1 && na < MAXN / 2 && nb < MAXN / 2);
        let mut a = Covariance::__verif_from_parts(big(i), nonneg_state_sum(i), big(i), nonneg_state_sum(i), big(i), na);
        let b = Covariance::__verif_from_parts(big(i), nonneg_state_sum(i), big(i), nonneg_state_sum(i), big(i), nb);
        a.merge(&b);
        vassert!(i, a.population_variance_x() >= 0.0 && a.population_variance_y() >= 0.0 && a.sample_variance_x() >= 0.0 && a.sample_variance_y() >= 0.0, "C17:covariance-variances-non-negative");
        vcover!(i, na > 1 && nb > 1, "two-general-states");
    }
    /// define_moments!: second central sum after add
    fn moments4_add_sign [6] (i) {
        let n = i.u64();
        vassume!(i, n >= 1 && n < MAXN);
        let avg = big(i);
        let s2 = nonneg_state_sum(i);
        let (s3, s4) = (big(i), nonneg_state_sum(i));
        let mut m = if n == 1 { M4::__verif_from_parts(1, avg, [0.0; 3]) } else { M4::__verif_from_parts(n, avg, [s2, s3, s4]) };
        m.add(big(i));
        vassert!(i, m.central_moment(2) >= 0.0 && m.sample_variance() >= 0.0, "C17:moments-variance-non-negative");
        vcover!(i, n > 2, "general-state");
    }
    /// Welford mean step: the new mean lies between the old mean and the sample (so inside the hull of the data),
    /// up to 8 * 2^-52 * max(|mean|,|x|)
    fn mean_add_hull [3] (i) {
        let n = i.u64();
        vassume!(i, n >= 1 && n <= 1024);
        let avg = big(i);
        let x = big(i);
        let mut m = Mean::__verif_from_parts(avg, n);
        m.add(x);
        let r = m.mean();
        let lo = if avg < x { avg } else { x };
        let hi = if avg < x { x } else { avg };
        let mx = if avg.abs() > x.abs() { avg.abs() } else { x.abs() };
        let tol = scale_down(mx, 49);
        vassert!(i, r >= lo - tol && r <= hi + tol, "C17:mean-within-data-range");
        vcover!(i, avg < 0.0 && x > 0.0 && n > 3, "straddles-zero");
    }
    fn variance_mean_add_hull [3] (i) {
        let n = i.u64();
        vassume!(i, n >= 1 && n <= 1024);
        let avg = big(i);
        let x = big(i);
        let mut m = Variance::__verif_from_parts(avg, n, 0.0);
        m.add(x);
        let r = m.mean();
        let lo = if avg < x { avg } else { x };
        let hi = if avg < x { x } else { avg };
        let mx = if avg.abs() > x.abs() { avg.abs() } else { x.abs() };
        let tol = scale_down(mx, 49);
        vassert!(i, r >= lo - tol && r <= hi + tol, "C17:mean-within-data-range");
        vcover!(i, avg < 0.0 && x > 0.0 && n > 3, "straddles-zero");
    }
    /// first observation: mean is exactly x
    fn mean_first [3] (i) {
        let x = big(i);
        let mut m = Mean::new(); m.add(x);
        vassert!(i, m.mean() == x, "C17:mean-within-data-range");
        let mut c = Covariance::new(); c.add(x, x);
        vassert!(i, c.mean_x() == x && c.mean_y() == x, "C17:mean-within-data-range");
    }
    /// histogram bin variance in [0, total/4] up to rounding, LEN 2, counts <= 2^20
    fn hist_variance_range [6] (i) {
        let (c0, c1) = (i.u64(), i.u64());
        vassume!(i, c0 <= (1 << 20) && c1 <= (1 << 20) && c0 + c1 > 0);
        let h = H2::__verif_from_parts([0.0, 1.0, 2.0], [c0, c1]);
        let t = (c0 + c1) as f64;
        for j in 0..2 {
            let v = h.variance(j);
            vassert!(i, v >= -(t * 1.2e-16) && v <= t * 0.25 * (1.0 + 1e-15), "C17:bin-variance-in-zero-to-quarter-total");
        }
        vcover!(i, c0 == c1 && c0 > 1000, "balanced-bins");
    }
    /// effective_len in [1, len] up to n*2^-50 relative, three weights on a lattice k/4
    fn effective_len_range [4] (i) {
        let mut e = WeightedMeanWithError::new();
        let mut any = false;
        for _ in 0..3 {
            let k = i.u8();
            let w = (k as f64) * 0.25;
            if k > 0 { any = true; }
            e.add(1.0, w);
        }
        vassume!(i, any);
        let l = e.effective_len();
        vassert!(i, l >= 1.0 - 3.0 * 8.9e-16 && l <= 3.0 * (1.0 + 3.0 * 8.9e-16), "C17:effective-len-between-one-and-len");
        vcover!(i, l > 2.9, "nearly-equal-weights");
    }
}
