//! Small helpers used by several harness modules.
use crate::inp::Inp;

/// bit-for-bit equality of doubles
#[inline]
pub fn beq(a: f64, b: f64) -> bool {
    a.to_bits() == b.to_bits()
}

/// numeric equality that also treats NaN == NaN (for "same sentinel")
#[inline]
pub fn same(a: f64, b: f64) -> bool {
    a == b || (a.is_nan() && b.is_nan())
}

/// a symbolic double restricted to the C01 domain: finite, |x| in {0} U [1e-30, 1e30]
pub fn dom_f64<I: Inp>(i: &mut I) -> f64 {
    let x = i.f64();
    let a = x.abs();
    vassume!(i, x.is_finite() && (a == 0.0 || (a >= 1e-30 && a <= 1e30)));
    x
}

/// a symbolic finite double
pub fn finite_f64<I: Inp>(i: &mut I) -> f64 {
    let x = i.f64();
    vassume!(i, x.is_finite());
    x
}

/// a and b within k units in the last place of each other (same sign), or numerically equal, or both NaN.
/// Pure integer comparison of the bit patterns: no floating-point arithmetic for the solver to blast.
pub fn ulp_close(a: f64, b: f64, k: u64) -> bool {
    if a.is_nan() || b.is_nan() {
        return a.is_nan() && b.is_nan();
    }
    if a == b {
        return true;
    }
    if a.is_sign_negative() != b.is_sign_negative() {
        // opposite signs: only the two smallest magnitudes around zero can be within k ulp
        return (a.to_bits() & !(1u64 << 63)) + (b.to_bits() & !(1u64 << 63)) <= k;
    }
    let (x, y) = (a.to_bits(), b.to_bits());
    (if x > y { x - y } else { y - x }) <= k
}
