//! C15 — Quantile estimates stay inside the data range and bookkeeping is exact
//! (also carries the bit-precise bookkeeping part of C05: positions and extreme markers).
use crate::inp::Inp;
use crate::util::beq;
use average::{Estimate, Quantile};

fn obs<I: Inp>(i: &mut I) -> f64 {
    let x = i.f64();
    vassume!(i, x.is_finite());
    x
}

fn valid_p<I: Inp>(i: &mut I) -> f64 {
    let p = i.f64();
    vassume!(i, p >= 0.0 && p <= 1.0);
    p
}

/// zero, or large enough that its half is still a normal number (|x| >= 2^-1021), so halving is exact
fn normal_or_zero(x: f64) -> bool {
    x == 0.0 || x.abs() >= 4.450147717014403e-308
}

/// p with at most 13 significant bits in {0} U [2^-12, 1] (contains every m/4096)
fn grid_p<I: Inp>(i: &mut I) -> f64 {
    let p = i.f64();
    vassume!(i, p >= 0.0 && p <= 1.0);
    vassume!(i, p == 0.0 || p >= 0.000244140625);
    vassume!(i, p.to_bits() & ((1u64 << 40) - 1) == 0);
    p
}

/// streams of up to N <= 5 observations from new(p): bookkeeping and range after every observation
fn small_stream<I: Inp, const N: usize>(i: &mut I) {
    let p = valid_p(i);
    small_stream_on::<I, N>(i, p, false)
}

fn small_stream_on<I: Inp, const N: usize>(i: &mut I, p: f64, lattice: bool) {
    let mut q = Quantile::new(p);
    vassert!(i, q.len() == 0 && q.is_empty(), "C15:new-is-empty");
    vassert!(i, q.quantile().is_nan(), "C15:empty-quantile-is-nan");
    vassert!(i, beq(q.p(), p), "C15:p-reads-back-exactly");
    let mut lo = f64::INFINITY;
    let mut hi = f64::NEG_INFINITY;
    let mut all_normal = true;
    for j in 0..N {
        let x = if lattice { (i.i16() as f64) * 0.25 } else { obs(i) };
        all_normal = all_normal && normal_or_zero(x);
        q.add(x);
        if x < lo { lo = x; }
        if x > hi { hi = x; }
        vassert!(i, q.len() == (j as u64) + 1, "C15:len-counts-observations");
        vassert!(i, !q.is_empty(), "C15:is-empty-iff-len-zero");
        vassert!(i, beq(q.p(), p), "C15:p-reads-back-exactly");
        let r = q.quantile();
        vassert!(i, !r.is_nan(), "C15:quantile-nan-only-when-empty");
        if all_normal {
            vassert!(i, lo <= r && r <= hi, "C15:quantile-within-data-range");
        } else {
            // halving an observation below 2^-1021 rounds (to even) before the sum is formed: see known_findings.json
            vassert!(i, lo <= r && r <= hi, "C15:quantile-within-data-range-tiny-observations");
        }
        vassert!(i, q.estimate() == r, "C15:estimate-is-quantile");
    }
    if N == 5 {
        let (h, n, _, _) = q.__verif_parts();
        vassert!(i, h[0] <= h[1] && h[1] <= h[2] && h[2] <= h[3] && h[3] <= h[4], "C15:heights-non-decreasing");
        vassert!(i, h[0] == lo && h[4] == hi, "C15:extreme-markers-are-min-and-max");
        vassert!(i, n[0] == 1 && n[1] == 2 && n[2] == 3 && n[3] == 4 && n[4] == 5, "C05:initial-positions-1-to-5");
    }
}

/// An arbitrary well-formed marker state with `count >= 5` observations (DESIGN §2.1 invariant):
/// heights finite and non-decreasing, positions strictly increasing from 1 to count.
/// Desired positions are arbitrary finite doubles (a weaker hypothesis than any real history provides).
fn wf_state<I: Inp>(i: &mut I, p: f64, max_count: i64) -> ([f64; 5], [i64; 5], Quantile) {
    let mut h = [0.0f64; 5];
    for j in 0..5 { h[j] = obs(i); }
    vassume!(i, h[0] <= h[1] && h[1] <= h[2] && h[2] <= h[3] && h[3] <= h[4]);
    let mut n = [0i64; 5];
    n[0] = 1;
    for j in 1..5 { n[j] = i.i64(); }
    vassume!(i, n[0] < n[1] && n[1] < n[2] && n[2] < n[3] && n[3] < n[4] && n[4] <= max_count);
    let mut m = [0.0f64; 5];
    for j in 0..5 { m[j] = i.f64(); vassume!(i, m[j].is_finite() && m[j].abs() <= 4.0e12); }
    let (_, _, _, dm) = Quantile::new(p).__verif_parts();
    (h, n, Quantile::__verif_from_parts(h, n, m, dm))
}

/// one observation from any well-formed state: positions, count and extreme markers (full doubles)
fn step_bookkeeping<I: Inp>(i: &mut I, which: u8) -> bool {
    let p = valid_p(i);
    let (h, n, mut q) = wf_state(i, p, 1i64 << 40);
    let x = obs(i);
    match which {
        0 => vassume!(i, x < h[0]),
        1 => vassume!(i, x >= h[4]),
        2 => vassume!(i, x >= h[0] && x < h[4]),
        _ => {}
    }
    q.add(x);
    let (g, k, _, _) = q.__verif_parts();
    vassert!(i, k[0] == 1, "C05:first-marker-stays-at-position-1");
    vassert!(i, k[4] == n[4] + 1, "C05:last-marker-position-is-count");
    vassert!(i, q.len() == (n[4] as u64) + 1, "C15:len-counts-observations");
    vassert!(i, k[0] < k[1] && k[1] < k[2] && k[2] < k[3] && k[3] < k[4], "C05:positions-strictly-increasing");
    for j in 1..4 {
        let d = k[j] - n[j];
        // a marker's position grows by the arrival (0/1) and moves by at most one on adjustment
        vassert!(i, d >= -1 && d <= 2, "C05:interior-marker-moves-at-most-one-position");
    }
    let lo = if x < h[0] { x } else { h[0] };
    let hi = if x > h[4] { x } else { h[4] };
    vassert!(i, g[0] == lo, "C15:first-marker-is-running-minimum");
    vassert!(i, g[4] == hi, "C15:last-marker-is-running-maximum");
    vassert!(i, beq(q.p(), p), "C15:p-reads-back-exactly");
    vcover!(i, k[2] != n[2] && k[2] != n[2] + 1, "middle-marker-adjusted-down");
    // reachability witness of the variant's own branch (each variant restricts the observation to one cell); the caller covers it under
    // its own label, so that no harness carries a cover statement it cannot satisfy
    match which {
        0 => x < h[0],
        1 => x > h[4],
        _ => x > h[1] && x < h[3],
    }
}

/// one observation from a well-formed state whose heights and sample lie on a small integer lattice:
/// height ordering and quantile() within [min, max] are decided bit-precisely there
fn step_lattice<I: Inp>(i: &mut I) {
    let p = valid_p(i);
    let off = i.i8();
    let mut h = [0.0f64; 5];
    for j in 0..5 { h[j] = (i.i8() as f64) + (off as f64) * 1024.0; }
    vassume!(i, h[0] <= h[1] && h[1] <= h[2] && h[2] <= h[3] && h[3] <= h[4]);
    let mut n = [0i64; 5];
    n[0] = 1;
    for j in 1..5 { n[j] = i.i64(); }
    vassume!(i, n[0] < n[1] && n[1] < n[2] && n[2] < n[3] && n[3] < n[4] && n[4] <= 32);
    let mut m = [0.0f64; 5];
    for j in 0..5 { m[j] = (i.i8() as f64) * 0.25; }
    let (_, _, _, dm) = Quantile::new(p).__verif_parts();
    let mut q = Quantile::__verif_from_parts(h, n, m, dm);
    let x = (i.i8() as f64) + (off as f64) * 1024.0;
    q.add(x);
    let (g, _, _, _) = q.__verif_parts();
    vassert!(i, g[0] <= g[1] && g[1] <= g[2] && g[2] <= g[3] && g[3] <= g[4], "C15:heights-non-decreasing");
    let r = q.quantile();
    vassert!(i, g[0] <= r && r <= g[4], "C15:quantile-within-data-range");
    vcover!(i, g[2] != h[2], "middle-height-moved");
}

harnesses! {
    fn stream1 [8] (i) { small_stream::<I, 1>(i); }
    fn stream2 [8] (i) { small_stream::<I, 2>(i); }
    fn stream3 [8] (i) { small_stream::<I, 3>(i); }
    fn stream4 [8] (i) { small_stream::<I, 4>(i); }
    fn stream5 [8] (i) { small_stream::<I, 5>(i); }
    fn lat_stream3 [8] (i) { let p = grid_p(i); small_stream_on::<I, 3>(i, p, true); }
    fn lat_stream4 [8] (i) { let p = grid_p(i); small_stream_on::<I, 4>(i, p, true); }
    fn lat_stream5 [8] (i) { let p = grid_p(i); small_stream_on::<I, 5>(i, p, true); }
    fn new_invalid [2] (i) {
        let p = i.f64();
        vassume!(i, !(p >= 0.0 && p <= 1.0));
        let q = Quantile::new(p);
        vunreachable!(i, "must-be-unreachable:C15:new-accepts-invalid-p");
        let _ = q;
    }
    fn step_newmin [8] (i) { let w = step_bookkeeping(i, 0); vcover!(i, w, "new-minimum-branch"); }
    fn step_top [8] (i) { let w = step_bookkeeping(i, 1); vcover!(i, w, "new-maximum-branch"); }
    fn step_interior [8] (i) { let w = step_bookkeeping(i, 2); vcover!(i, w, "interior-cell-branch"); }
    fn step_lat [8] (i) { step_lattice(i); }
}
