//! C14 — Min and Max return the exact extreme of everything seen, in any order.
use crate::inp::Inp;
use average::{Estimate, Max, Merge, Min};

/// Reference: fold of "smaller non-NaN, as numbers" from +inf.
fn ref_min(acc: f64, x: f64) -> f64 {
    if x.is_nan() { acc } else if x < acc { x } else { acc }
}
fn ref_max(acc: f64, x: f64) -> f64 {
    if x.is_nan() { acc } else if x > acc { x } else { acc }
}

fn stream<I: Inp, const N: usize>(i: &mut I) {
    let mut xs = [0.0f64; N];
    for j in 0..N { xs[j] = i.f64(); }
    // symbolic cut points 0 <= c1 <= c2 <= N: three contiguous, possibly empty chunks
    let c1 = i.u8() as usize;
    let c2 = i.u8() as usize;
    vassume!(i, c1 <= c2 && c2 <= N);
    let bracket_left = i.bool();
    let seeded = i.bool();
    let seed = i.f64();
    vassume!(i, !seed.is_nan());

    // reference
    let mut rmin = f64::INFINITY;
    let mut rmax = f64::NEG_INFINITY;
    if seeded { rmin = ref_min(rmin, seed); rmax = ref_max(rmax, seed); }
    for j in 0..N { rmin = ref_min(rmin, xs[j]); rmax = ref_max(rmax, xs[j]); }

    // Min
    let mut a = if seeded { Min::from_value(seed) } else { Min::new() };
    let mut b = Min::new();
    let mut c = Min::default();
    for j in 0..N {
        if j < c1 { a.add(xs[j]); } else if j < c2 { b.add(xs[j]); } else { c.add(xs[j]); }
    }
    let c_before = c.min();
    if bracket_left { a.merge(&b); a.merge(&c); } else { b.merge(&c); a.merge(&b); }
    vassert!(i, a.min() == rmin, "C14:min-equals-smallest-non-nan");
    vassert!(i, crate::util::same(a.estimate(), a.min()), "C14:min-estimate-is-min");
    vassert!(i, crate::util::same(c.min(), c_before), "C14:merge-leaves-argument");

    // Max
    let mut a = if seeded { Max::from_value(seed) } else { Max::new() };
    let mut b = Max::new();
    let mut c = Max::default();
    for j in 0..N {
        if j < c1 { a.add(xs[j]); } else if j < c2 { b.add(xs[j]); } else { c.add(xs[j]); }
    }
    if bracket_left { a.merge(&b); a.merge(&c); } else { b.merge(&c); a.merge(&b); }
    vassert!(i, a.max() == rmax, "C14:max-equals-largest-non-nan");
    vassert!(i, crate::util::same(a.estimate(), a.max()), "C14:max-estimate-is-max");

    vcover!(i, xs[0].is_nan() && !xs[N - 1].is_nan() && c1 > 0 && c1 < c2 && c2 < N, "nan-first-and-three-nonempty-chunks");
    vcover!(i, seeded && seed < rmax && rmin == seed, "seed-is-the-minimum");
}

/// the four ingestion paths on a concrete-length array: collect by value / by reference, extend, add loop
fn ingest<I: Inp, const N: usize>(i: &mut I) {
    let mut xs = [0.0f64; N];
    for j in 0..N { xs[j] = i.f64(); }
    let mut rmin = f64::INFINITY;
    let mut rmax = f64::NEG_INFINITY;
    for j in 0..N { rmin = ref_min(rmin, xs[j]); rmax = ref_max(rmax, xs[j]); }
    let a: Min = xs.iter().collect();
    let b: Min = xs.iter().copied().collect();
    let mut c = Min::new();
    c.extend(xs.iter());
    let mut d = Min::new();
    d.extend(xs.iter().copied());
    vassert!(i, a.min() == rmin && b.min() == rmin && c.min() == rmin && d.min() == rmin, "C14:min-ingestion-paths");
    let a: Max = xs.iter().collect();
    let b: Max = xs.iter().copied().collect();
    vassert!(i, a.max() == rmax && b.max() == rmax, "C14:max-ingestion-paths");
    // permutation invariance: reversed order
    let mut r = Min::new();
    let mut s = Max::new();
    for j in 0..N { r.add(xs[N - 1 - j]); s.add(xs[N - 1 - j]); }
    vassert!(i, r.min() == rmin && s.max() == rmax, "C14:order-independent");
    vcover!(i, xs[0].is_nan() && xs[N - 1] == f64::NEG_INFINITY, "nan-and-neg-inf");
}

harnesses! {
    /// 4 symbolic doubles (NaN, inf, signed zero included), 3 chunks, both bracketings, 4 ingestion paths
    fn stream3 [5] (i) { stream::<I, 3>(i); }
    fn stream4 [6] (i) { stream::<I, 4>(i); }
    fn stream5 [7] (i) { stream::<I, 5>(i); }
    fn ingest3 [5] (i) { ingest::<I, 3>(i); }
    fn ingest5 [7] (i) { ingest::<I, 5>(i); }

    /// one step from an arbitrary non-NaN state: covers histories of any length
    fn step [2] (i) {
        let s = i.f64();
        vassume!(i, !s.is_nan());
        let x = i.f64();
        let mut m = Min::from_value(s);
        m.add(x);
        vassert!(i, m.min() == ref_min(s, x), "C14:min-step");
        let mut m = Max::from_value(s);
        m.add(x);
        vassert!(i, m.max() == ref_max(s, x), "C14:max-step");
        let t = i.f64();
        vassume!(i, !t.is_nan());
        let mut a = Min::from_value(s);
        a.merge(&Min::from_value(t));
        vassert!(i, a.min() == ref_min(s, t), "C14:min-merge-step");
        let mut a = Max::from_value(s);
        a.merge(&Max::from_value(t));
        vassert!(i, a.max() == ref_max(s, t), "C14:max-merge-step");
        vcover!(i, x.is_nan(), "nan-observation");
        vcover!(i, s == 0.0 && x == 0.0 && s.is_sign_negative() != x.is_sign_negative(), "signed-zeros");
    }
}
