//! A lossless in-memory serde data format: every primitive is recorded as its raw bits on a fixed-size tape,
//! structs with their field names, tuples/arrays with their length. No text is produced or parsed.
use serde::de::{self, DeserializeSeed, MapAccess, SeqAccess, Visitor};
use serde::ser::{self, Impossible, Serialize};

pub const CAP: usize = 48;

#[derive(Clone, Copy, PartialEq, Debug)]
pub enum Tok {
    Empty,
    Struct(&'static str, usize),
    Field(&'static str),
    Tuple(usize),
    F64(u64),
    U64(u64),
    I64(i64),
    F32(u32),
    Bool(bool),
    Unit,
    None,
    Some,
}

#[derive(Clone, Copy)]
pub struct Tape {
    pub toks: [Tok; CAP],
    pub len: usize,
}

impl Tape {
    pub fn new() -> Tape { Tape { toks: [Tok::Empty; CAP], len: 0 } }
    fn push(&mut self, t: Tok) -> Result<(), Error> {
        if self.len >= CAP { return Err(Error); }
        self.toks[self.len] = t;
        self.len += 1;
        Ok(())
    }
    pub fn same(&self, other: &Tape) -> bool {
        if self.len != other.len { return false; }
        let mut ok = true;
        let mut j = 0;
        while j < CAP {
            if j < self.len && self.toks[j] != other.toks[j] { ok = false; }
            j += 1;
        }
        ok
    }
}

#[derive(Debug, Clone, Copy, PartialEq)]
pub struct Error;
impl core::fmt::Display for Error {
    fn fmt(&self, f: &mut core::fmt::Formatter<'_>) -> core::fmt::Result { f.write_str("tape error") }
}
impl std::error::Error for Error {}
impl ser::Error for Error { fn custom<T: core::fmt::Display>(_m: T) -> Self { Error } }
impl de::Error for Error { fn custom<T: core::fmt::Display>(_m: T) -> Self { Error } }

pub struct Ser<'a> { pub tape: &'a mut Tape }

impl<'a, 'b> ser::Serializer for &'b mut Ser<'a> {
    type Ok = ();
    type Error = Error;
    type SerializeSeq = Impossible<(), Error>;
    type SerializeTuple = Self;
    type SerializeTupleStruct = Impossible<(), Error>;
    type SerializeTupleVariant = Impossible<(), Error>;
    type SerializeMap = Impossible<(), Error>;
    type SerializeStruct = Self;
    type SerializeStructVariant = Impossible<(), Error>;

    fn serialize_f64(self, v: f64) -> Result<(), Error> { self.tape.push(Tok::F64(v.to_bits())) }
    fn serialize_u64(self, v: u64) -> Result<(), Error> { self.tape.push(Tok::U64(v)) }
    fn serialize_i64(self, v: i64) -> Result<(), Error> { self.tape.push(Tok::I64(v)) }
    fn serialize_struct(self, name: &'static str, len: usize) -> Result<Self, Error> { self.tape.push(Tok::Struct(name, len))?; Ok(self) }
    fn serialize_tuple(self, len: usize) -> Result<Self, Error> { self.tape.push(Tok::Tuple(len))?; Ok(self) }

    fn collect_str<T: ?Sized + core::fmt::Display>(self, _v: &T) -> Result<(), Error> { Err(Error) }
    fn serialize_bool(self, v: bool) -> Result<(), Error> { self.tape.push(Tok::Bool(v)) }
    fn serialize_i8(self, v: i8) -> Result<(), Error> { self.tape.push(Tok::I64(v as i64)) }
    fn serialize_i16(self, v: i16) -> Result<(), Error> { self.tape.push(Tok::I64(v as i64)) }
    fn serialize_i32(self, v: i32) -> Result<(), Error> { self.tape.push(Tok::I64(v as i64)) }
    fn serialize_u8(self, v: u8) -> Result<(), Error> { self.tape.push(Tok::U64(v as u64)) }
    fn serialize_u16(self, v: u16) -> Result<(), Error> { self.tape.push(Tok::U64(v as u64)) }
    fn serialize_u32(self, v: u32) -> Result<(), Error> { self.tape.push(Tok::U64(v as u64)) }
    fn serialize_f32(self, v: f32) -> Result<(), Error> { self.tape.push(Tok::F32(v.to_bits())) }
    fn serialize_char(self, _v: char) -> Result<(), Error> { Err(Error) }
    fn serialize_str(self, _v: &str) -> Result<(), Error> { Err(Error) }
    fn serialize_bytes(self, _v: &[u8]) -> Result<(), Error> { Err(Error) }
    fn serialize_none(self) -> Result<(), Error> { self.tape.push(Tok::None) }
    fn serialize_some<T: ?Sized + Serialize>(self, v: &T) -> Result<(), Error> { self.tape.push(Tok::Some)?; v.serialize(self) }
    fn serialize_unit(self) -> Result<(), Error> { self.tape.push(Tok::Unit) }
    fn serialize_unit_struct(self, _n: &'static str) -> Result<(), Error> { Err(Error) }
    fn serialize_unit_variant(self, _n: &'static str, _i: u32, _v: &'static str) -> Result<(), Error> { Err(Error) }
    fn serialize_newtype_struct<T: ?Sized + Serialize>(self, _n: &'static str, v: &T) -> Result<(), Error> { v.serialize(self) }
    fn serialize_newtype_variant<T: ?Sized + Serialize>(self, _n: &'static str, _i: u32, _v: &'static str, _x: &T) -> Result<(), Error> { Err(Error) }
    fn serialize_seq(self, _len: Option<usize>) -> Result<Self::SerializeSeq, Error> { Err(Error) }
    fn serialize_tuple_struct(self, _n: &'static str, _l: usize) -> Result<Self::SerializeTupleStruct, Error> { Err(Error) }
    fn serialize_tuple_variant(self, _n: &'static str, _i: u32, _v: &'static str, _l: usize) -> Result<Self::SerializeTupleVariant, Error> { Err(Error) }
    fn serialize_map(self, _len: Option<usize>) -> Result<Self::SerializeMap, Error> { Err(Error) }
    fn serialize_struct_variant(self, _n: &'static str, _i: u32, _v: &'static str, _l: usize) -> Result<Self::SerializeStructVariant, Error> { Err(Error) }
}

impl<'a, 'b> ser::SerializeStruct for &'b mut Ser<'a> {
    type Ok = ();
    type Error = Error;
    fn serialize_field<T: ?Sized + Serialize>(&mut self, key: &'static str, value: &T) -> Result<(), Error> {
        self.tape.push(Tok::Field(key))?;
        value.serialize(&mut **self)
    }
    fn end(self) -> Result<(), Error> { Ok(()) }
}
impl<'a, 'b> ser::SerializeTuple for &'b mut Ser<'a> {
    type Ok = ();
    type Error = Error;
    fn serialize_element<T: ?Sized + Serialize>(&mut self, value: &T) -> Result<(), Error> { value.serialize(&mut **self) }
    fn end(self) -> Result<(), Error> { Ok(()) }
}

pub fn to_tape<T: Serialize>(v: &T) -> Result<Tape, Error> {
    let mut tape = Tape::new();
    {
        let mut s = Ser { tape: &mut tape };
        v.serialize(&mut s)?;
    }
    Ok(tape)
}

pub struct De<'a> { pub tape: &'a Tape, pub pos: usize }

impl<'a> De<'a> {
    fn next(&mut self) -> Result<Tok, Error> {
        if self.pos >= self.tape.len { return Err(Error); }
        let t = self.tape.toks[self.pos];
        self.pos += 1;
        Ok(t)
    }
}

impl<'de, 'a, 'b> de::Deserializer<'de> for &'b mut De<'a> {
    type Error = Error;
    fn deserialize_any<V: Visitor<'de>>(self, _v: V) -> Result<V::Value, Error> { Err(Error) }
    fn deserialize_f64<V: Visitor<'de>>(self, v: V) -> Result<V::Value, Error> {
        match self.next()? { Tok::F64(b) => v.visit_f64(f64::from_bits(b)), _ => Err(Error) }
    }
    fn deserialize_u64<V: Visitor<'de>>(self, v: V) -> Result<V::Value, Error> {
        match self.next()? { Tok::U64(b) => v.visit_u64(b), _ => Err(Error) }
    }
    fn deserialize_i64<V: Visitor<'de>>(self, v: V) -> Result<V::Value, Error> {
        match self.next()? { Tok::I64(b) => v.visit_i64(b), _ => Err(Error) }
    }
    fn deserialize_f32<V: Visitor<'de>>(self, v: V) -> Result<V::Value, Error> {
        match self.next()? { Tok::F32(b) => v.visit_f32(f32::from_bits(b)), _ => Err(Error) }
    }
    fn deserialize_bool<V: Visitor<'de>>(self, v: V) -> Result<V::Value, Error> {
        match self.next()? { Tok::Bool(b) => v.visit_bool(b), _ => Err(Error) }
    }
    fn deserialize_u8<V: Visitor<'de>>(self, v: V) -> Result<V::Value, Error> { self.deserialize_u64(v) }
    fn deserialize_u16<V: Visitor<'de>>(self, v: V) -> Result<V::Value, Error> { self.deserialize_u64(v) }
    fn deserialize_u32<V: Visitor<'de>>(self, v: V) -> Result<V::Value, Error> { self.deserialize_u64(v) }
    fn deserialize_i8<V: Visitor<'de>>(self, v: V) -> Result<V::Value, Error> { self.deserialize_i64(v) }
    fn deserialize_i16<V: Visitor<'de>>(self, v: V) -> Result<V::Value, Error> { self.deserialize_i64(v) }
    fn deserialize_i32<V: Visitor<'de>>(self, v: V) -> Result<V::Value, Error> { self.deserialize_i64(v) }
    fn deserialize_unit<V: Visitor<'de>>(self, v: V) -> Result<V::Value, Error> {
        match self.next()? { Tok::Unit => v.visit_unit(), _ => Err(Error) }
    }
    fn deserialize_option<V: Visitor<'de>>(self, v: V) -> Result<V::Value, Error> {
        match self.next()? { Tok::None => v.visit_none(), Tok::Some => v.visit_some(self), _ => Err(Error) }
    }
    fn deserialize_struct<V: Visitor<'de>>(self, _name: &'static str, _fields: &'static [&'static str], v: V) -> Result<V::Value, Error> {
        match self.next()? {
            Tok::Struct(_, n) => v.visit_map(Fields { de: self, left: n }),
            _ => Err(Error),
        }
    }
    fn deserialize_tuple<V: Visitor<'de>>(self, len: usize, v: V) -> Result<V::Value, Error> {
        match self.next()? {
            Tok::Tuple(n) if n == len => v.visit_seq(Elems { de: self, left: n }),
            _ => Err(Error),
        }
    }
    fn deserialize_identifier<V: Visitor<'de>>(self, v: V) -> Result<V::Value, Error> {
        match self.next()? { Tok::Field(name) => v.visit_str(name), _ => Err(Error) }
    }
    fn deserialize_newtype_struct<V: Visitor<'de>>(self, _n: &'static str, v: V) -> Result<V::Value, Error> { v.visit_newtype_struct(self) }
    serde::forward_to_deserialize_any! {
        char str string bytes byte_buf unit_struct seq tuple_struct map enum ignored_any
    }
}

struct Fields<'b, 'a> { de: &'b mut De<'a>, left: usize }
impl<'de, 'b, 'a> MapAccess<'de> for Fields<'b, 'a> {
    type Error = Error;
    fn next_key_seed<K: DeserializeSeed<'de>>(&mut self, seed: K) -> Result<Option<K::Value>, Error> {
        if self.left == 0 { return Ok(None); }
        self.left -= 1;
        seed.deserialize(&mut *self.de).map(Some)
    }
    fn next_value_seed<S: DeserializeSeed<'de>>(&mut self, seed: S) -> Result<S::Value, Error> { seed.deserialize(&mut *self.de) }
}
struct Elems<'b, 'a> { de: &'b mut De<'a>, left: usize }
impl<'de, 'b, 'a> SeqAccess<'de> for Elems<'b, 'a> {
    type Error = Error;
    fn next_element_seed<S: DeserializeSeed<'de>>(&mut self, seed: S) -> Result<Option<S::Value>, Error> {
        if self.left == 0 { return Ok(None); }
        self.left -= 1;
        seed.deserialize(&mut *self.de).map(Some)
    }
}

pub fn from_tape<'de, T: serde::Deserialize<'de>>(tape: &Tape) -> Result<T, Error> {
    let mut d = De { tape, pos: 0 };
    let v = T::deserialize(&mut d)?;
    if d.pos != tape.len { return Err(Error); }
    Ok(v)
}
