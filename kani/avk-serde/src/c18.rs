use crate::tape::{from_tape, to_tape};
use crate::inp::Inp;
use crate::types::*;
use crate::util::beq;
use average::{Covariance, Estimate, Kurtosis, Max, Mean, Merge, Min, Quantile, Skewness, Variance, WeightedMean, WeightedMeanWithError};

mod m5s {
    use average::define_moments;
    define_moments!(S5, 5);
}
mod h3s {
    use average::define_histogram;
    define_histogram!(hs, 3);
    pub type HS3 = hs::Histogram;
}
use h3s::HS3;
use m5s::S5;

fn fin<I: Inp>(i: &mut I) -> f64 {
    let x = i.f64();
    vassume!(i, x.is_finite());
    x
}

harnesses! {
    fn mean [50] (i) {
        let a = mean_state(i);
        let p = a.__verif_parts();
        let t = to_tape(&a);
        vassert!(i, t.is_ok(), "C18:serialise-succeeds");
        let t = t.unwrap();
        let q = a.__verif_parts();
        vassert!(i, beq(p.0, q.0) && p.1 == q.1, "C18:serialising-does-not-modify");
        let r: Result<Mean, _> = from_tape(&t);
        vassert!(i, r.is_ok(), "C18:deserialise-succeeds");
        let b = r.unwrap();
        let q = b.__verif_parts();
        vassert!(i, beq(p.0, q.0) && p.1 == q.1, "C18:round-trip-preserves-state");
        vassert!(i, to_tape(&b).map(|u| u.same(&t)).unwrap_or(false), "C18:re-serialisation-identical");
        vcover!(i, p.1 > 2, "non-trivial-state");
    }
    /// sample sizes over the whole u64 range: a count above 2^53 (not a double) is reachable by self-merges, and the round
    /// trip does no arithmetic on it, so the MAXN bound of the shared state builders is not needed here
    fn counts_full_range [50] (i) {
        let n = i.u64();
        vassume!(i, n >= 2);
        let a = Mean::__verif_from_parts(fin(i), n);
        let r: Result<Mean, _> = from_tape(&to_tape(&a).unwrap());
        vassert!(i, r.is_ok(), "C18:deserialise-succeeds");
        vassert!(i, r.unwrap().__verif_parts().1 == n, "C18:round-trip-preserves-count");
        let a = Variance::__verif_from_parts(fin(i), n, 1.0);
        let r: Result<Variance, _> = from_tape(&to_tape(&a).unwrap());
        vassert!(i, r.is_ok(), "C18:deserialise-succeeds");
        vassert!(i, r.unwrap().__verif_parts().1 == n, "C18:round-trip-preserves-count");
        let a = Kurtosis::__verif_from_parts(fin(i), n, 1.0, 0.5, 2.0);
        let r: Result<Kurtosis, _> = from_tape(&to_tape(&a).unwrap());
        vassert!(i, r.is_ok(), "C18:deserialise-succeeds");
        vassert!(i, r.unwrap().__verif_parts().1 == n, "C18:round-trip-preserves-count");
        let a = Covariance::__verif_from_parts(fin(i), 1.0, 0.0, 1.0, 0.5, n);
        let r: Result<Covariance, _> = from_tape(&to_tape(&a).unwrap());
        vassert!(i, r.is_ok(), "C18:deserialise-succeeds");
        vassert!(i, r.unwrap().__verif_parts().5 == n, "C18:round-trip-preserves-count");
        let a = M4::__verif_from_parts(n, fin(i), [1.0, 0.5, 2.0]);
        let r: Result<M4, _> = from_tape(&to_tape(&a).unwrap());
        vassert!(i, r.is_ok(), "C18:deserialise-succeeds");
        vassert!(i, r.unwrap().__verif_parts().0 == n, "C18:round-trip-preserves-count");
        vcover!(i, n > (1u64 << 53) && n % 2 == 1, "count-not-representable-as-double");
    }
    fn variance [50] (i) {
        let a = var_state(i);
        let p = a.__verif_parts();
        let t = to_tape(&a).unwrap();
        let q = a.__verif_parts();
        vassert!(i, beq(p.0, q.0) && p.1 == q.1 && beq(p.2, q.2), "C18:serialising-does-not-modify");
        let r: Result<Variance, _> = from_tape(&t);
        vassert!(i, r.is_ok(), "C18:deserialise-succeeds");
        let b = r.unwrap();
        let q = b.__verif_parts();
        vassert!(i, beq(p.0, q.0) && p.1 == q.1 && beq(p.2, q.2), "C18:round-trip-preserves-state");
        vassert!(i, to_tape(&b).map(|u| u.same(&t)).unwrap_or(false), "C18:re-serialisation-identical");
        vcover!(i, p.1 > 2 && p.2 > 0.0, "non-trivial-state");
    }
    fn skewness [50] (i) {
        let a = skew_state(i);
        let p = a.__verif_parts();
        let t = to_tape(&a).unwrap();
        let r: Result<Skewness, _> = from_tape(&t);
        vassert!(i, r.is_ok(), "C18:deserialise-succeeds");
        let q = r.unwrap().__verif_parts();
        vassert!(i, beq(p.0, q.0) && p.1 == q.1 && beq(p.2, q.2) && beq(p.3, q.3), "C18:round-trip-preserves-state");
        vcover!(i, p.1 > 2 && p.3 < 0.0, "non-trivial-state");
    }
    fn kurtosis [50] (i) {
        let a = kurt_state(i);
        let p = a.__verif_parts();
        let t = to_tape(&a).unwrap();
        let r: Result<Kurtosis, _> = from_tape(&t);
        vassert!(i, r.is_ok(), "C18:deserialise-succeeds");
        let q = r.unwrap().__verif_parts();
        vassert!(i, beq(p.0, q.0) && p.1 == q.1 && beq(p.2, q.2) && beq(p.3, q.3) && beq(p.4, q.4), "C18:round-trip-preserves-state");
        vcover!(i, p.1 > 2 && p.4 > 0.0, "non-trivial-state");
    }
    fn moments4 [50] (i) {
        let a = m4_state(i);
        let p = a.__verif_parts();
        let t = to_tape(&a).unwrap();
        let r: Result<M4, _> = from_tape(&t);
        vassert!(i, r.is_ok(), "C18:deserialise-succeeds");
        let q = r.unwrap().__verif_parts();
        vassert!(i, p.0 == q.0 && beq(p.1, q.1) && beq(p.2[0], q.2[0]) && beq(p.2[1], q.2[1]) && beq(p.2[2], q.2[2]), "C18:round-trip-preserves-state");
        vcover!(i, p.0 > 2, "non-trivial-state");
    }
    fn moments5_user [50] (i) {
        let n = i.u64();
        let mut m = [0.0f64; 4];
        for j in 0..4 { m[j] = fin(i); }
        let a = S5::__verif_from_parts(n, fin(i), m);
        let p = a.__verif_parts();
        let t = to_tape(&a).unwrap();
        let r: Result<S5, _> = from_tape(&t);
        vassert!(i, r.is_ok(), "C18:deserialise-succeeds");
        let q = r.unwrap().__verif_parts();
        vassert!(i, p.0 == q.0 && beq(p.1, q.1) && beq(p.2[0], q.2[0]) && beq(p.2[1], q.2[1]) && beq(p.2[2], q.2[2]) && beq(p.2[3], q.2[3]), "C18:round-trip-preserves-state");
        vcover!(i, p.0 > 2, "non-trivial-state");
    }
    fn minmax [50] (i) {
        let x = fin(i);
        let a = Min::from_value(x);
        let t = to_tape(&a).unwrap();
        let r: Result<Min, _> = from_tape(&t);
        vassert!(i, r.is_ok() && beq(r.unwrap().min(), x), "C18:round-trip-preserves-state");
        let a = Max::from_value(x);
        let t = to_tape(&a).unwrap();
        let r: Result<Max, _> = from_tape(&t);
        vassert!(i, r.is_ok() && beq(r.unwrap().max(), x), "C18:round-trip-preserves-state");
    }
    fn weighted [50] (i) {
        let a = wm_state(i);
        let p = a.__verif_parts();
        let t = to_tape(&a).unwrap();
        let r: Result<WeightedMean, _> = from_tape(&t);
        vassert!(i, r.is_ok(), "C18:deserialise-succeeds");
        let q = r.unwrap().__verif_parts();
        vassert!(i, beq(p.0, q.0) && beq(p.1, q.1), "C18:round-trip-preserves-state");
        let a = wmwe_state(i);
        let p = a.__verif_parts();
        let t = to_tape(&a).unwrap();
        let r: Result<WeightedMeanWithError, _> = from_tape(&t);
        vassert!(i, r.is_ok(), "C18:deserialise-succeeds");
        let q = r.unwrap().__verif_parts();
        vassert!(i, beq(p.0, q.0) && beq((p.1).0, (q.1).0) && beq((p.1).1, (q.1).1) && beq((p.2).0, (q.2).0) && (p.2).1 == (q.2).1 && beq((p.2).2, (q.2).2), "C18:round-trip-preserves-state");
        vcover!(i, (p.2).1 > 2, "non-trivial-state");
    }
    fn covariance [50] (i) {
        let a = cov_state(i);
        let p = a.__verif_parts();
        let t = to_tape(&a).unwrap();
        let r: Result<Covariance, _> = from_tape(&t);
        vassert!(i, r.is_ok(), "C18:deserialise-succeeds");
        let mut b = r.unwrap();
        let q = b.__verif_parts();
        vassert!(i, beq(p.0, q.0) && beq(p.1, q.1) && beq(p.2, q.2) && beq(p.3, q.3) && beq(p.4, q.4) && p.5 == q.5, "C18:round-trip-preserves-state");
        vcover!(i, p.5 > 2, "non-trivial-state");
        let _ = &mut b;
    }
    /// Quantile in both phases: fewer than five observations (arbitrary partial state) and marker phase
    fn quantile [50] (i) {
        let mut q = [0.0f64; 5]; let mut n = [0i64; 5]; let mut m = [0.0f64; 5]; let mut dm = [0.0f64; 5];
        for j in 0..5 { q[j] = fin(i); n[j] = i.i64(); m[j] = fin(i); dm[j] = fin(i); }
        vassume!(i, n[4] >= 0);
        let a = Quantile::__verif_from_parts(q, n, m, dm);
        let t = to_tape(&a).unwrap();
        let r: Result<Quantile, _> = from_tape(&t);
        vassert!(i, r.is_ok(), "C18:deserialise-succeeds");
        let b = r.unwrap();
        let (q2, n2, m2, dm2) = b.__verif_parts();
        for j in 0..5 {
            vassert!(i, beq(q[j], q2[j]) && n[j] == n2[j] && beq(m[j], m2[j]) && beq(dm[j], dm2[j]), "C18:round-trip-preserves-state");
        }
        vassert!(i, to_tape(&b).map(|u| u.same(&t)).unwrap_or(false), "C18:re-serialisation-identical");
        vcover!(i, n[4] < 5, "small-sample-phase");
        vcover!(i, n[4] > 5, "marker-phase");
    }
    fn histogram3 [50] (i) {
        let mut e = [0.0f64; 4]; let mut c = [0u64; 3];
        for j in 0..4 { e[j] = fin(i); }
        for j in 0..3 { c[j] = i.u64(); }
        let a = HS3::__verif_from_parts(e, c);
        let t = to_tape(&a).unwrap();
        let r: Result<HS3, _> = from_tape(&t);
        vassert!(i, r.is_ok(), "C18:deserialise-succeeds");
        let (e2, c2) = r.unwrap().__verif_parts();
        for j in 0..4 { vassert!(i, beq(e[j], e2[j]), "C18:round-trip-preserves-state"); }
        for j in 0..3 { vassert!(i, c[j] == c2[j], "C18:round-trip-preserves-state"); }
        vcover!(i, c[0] > 0, "non-empty");
    }
    fn histogram10 [50] (i) {
        let mut e = [0.0f64; 11]; let mut c = [0u64; 10];
        for j in 0..11 { e[j] = fin(i); }
        for j in 0..10 { c[j] = i.u64(); }
        let a = average::Histogram10::__verif_from_parts(e, c);
        let t = to_tape(&a).unwrap();
        let r: Result<average::Histogram10, _> = from_tape(&t);
        vassert!(i, r.is_ok(), "C18:deserialise-succeeds");
        let (e2, c2) = r.unwrap().__verif_parts();
        for j in 0..11 { vassert!(i, beq(e[j], e2[j]), "C18:round-trip-preserves-state"); }
        for j in 0..10 { vassert!(i, c[j] == c2[j], "C18:round-trip-preserves-state"); }
        vcover!(i, c[0] > 0, "non-empty");
    }
}
