//! C18 — a serde round trip at any point is invisible to the rest of the computation.
#![allow(clippy::all)]
// the input abstraction, helpers and symbolic states are shared with the avk crate (same source files); avk itself cannot be
// a dependency because enabling average's `serde` feature switches the exported macros to their serde variants crate-wide
#[macro_use]
#[path = "../../avk/src/inp.rs"]
pub mod inp;
#[path = "../../avk/src/util.rs"]
pub mod util;
#[path = "../../avk/src/types.rs"]
pub mod types;
#[path = "../../avk/src/hists.rs"]
pub mod hists;
pub mod tape;
pub mod c18;

pub fn registry() -> Vec<(&'static str, &'static [(&'static str, fn(&mut inp::VecInp))])> {
    vec![("c18", c18::HARNESSES)]
}
