use crate::inp::Inp;
use crate::types::*;
use crate::util::dom_f64;
use average::{Estimate, Kurtosis, Max, Mean, Min, Skewness, Variance};
use rayon::iter::{ArrayPar, ParallelIterator, MAXN, SCHEDULE};

/// symbolic schedule: cut points, bracketing and identity insertions
fn schedule<I: Inp>(i: &mut I) {
    let mut s = [0u8; 8];
    for j in 0..8 { s[j] = i.u8(); }
    vassume!(i, s[0] <= 4 && s[1] <= 4 && s[2] <= 1);
    for j in 3..8 { vassume!(i, s[j] <= 3); }
    unsafe { SCHEDULE = s; }
}

fn input<I: Inp>(i: &mut I) -> ([f64; MAXN], usize) {
    let mut xs = [0.0f64; MAXN];
    for j in 0..MAXN { xs[j] = dom_f64(i); }
    let len = i.usize();
    vassume!(i, len <= MAXN);
    (xs, len)
}

fn by_value(xs: &[f64; MAXN], len: usize) -> ArrayPar<f64> {
    let mut items = [None; MAXN];
    for j in 0..MAXN { if j < len { items[j] = Some(xs[j]); } }
    ArrayPar::new(items, len)
}

fn by_ref<'a>(xs: &'a [f64; MAXN], len: usize) -> ArrayPar<&'a f64> {
    let mut items: [Option<&'a f64>; MAXN] = [None; MAXN];
    for j in 0..MAXN { if j < len { items[j] = Some(&xs[j]); } }
    ArrayPar::new(items, len)
}

macro_rules! len_check {
    ($i:ident, $T:ty) => {{
        schedule($i);
        let (xs, len) = input($i);
        let a: $T = by_value(&xs, len).collect();
        vassert!($i, a.len() == len as u64, "C19:parallel-len-is-sequential-len");
        vassert!($i, a.is_empty() == (len == 0), "C19:empty-input-gives-empty-estimator");
        let b: $T = by_ref(&xs, len).collect();
        vassert!($i, b.len() == len as u64, "C19:parallel-len-is-sequential-len");
        let cuts = unsafe { (SCHEDULE[0], SCHEDULE[1]) };
        vcover!($i, len == 4 && cuts.0 == 1 && cuts.1 == 3, "four-items-three-nonempty-pieces");
        vcover!($i, len == 2 && cuts.0 == 0 && cuts.1 == 0, "two-leading-empty-pieces");
    }};
}

/// the same with concrete data (symbolic length and schedule): the float arithmetic of the higher-order merges constant-folds,
/// which is what makes these instantiations finish; len() cannot depend on the values unless add/merge branch on them
macro_rules! len_check_concrete {
    ($i:ident, $T:ty) => {{
        schedule($i);
        let xs: [f64; MAXN] = [1.5, -2.0, 0.25, 3.0];
        let len = $i.usize();
        vassume!($i, len <= MAXN);
        let a: $T = by_value(&xs, len).collect();
        vassert!($i, a.len() == len as u64, "C19:parallel-len-is-sequential-len");
        vassert!($i, a.is_empty() == (len == 0), "C19:empty-input-gives-empty-estimator");
        let b: $T = by_ref(&xs, len).collect();
        vassert!($i, b.len() == len as u64, "C19:parallel-len-is-sequential-len");
        let cuts = unsafe { (SCHEDULE[0], SCHEDULE[1]) };
        vcover!($i, len == 4 && cuts.0 == 1 && cuts.1 == 3, "four-items-three-nonempty-pieces");
        vcover!($i, len == 2 && cuts.0 == 0 && cuts.1 == 0, "two-leading-empty-pieces");
    }};
}

harnesses! {
    fn minmax [10] (i) {
        schedule(i);
        // values over the property's small alphabet (NaN, infinities, signed zeros, ties), all 8^4 vectors symbolically
        const ALPHABET: [f64; 8] = [f64::NEG_INFINITY, -1.0, -0.0, 0.0, 1.0, 2.5, f64::INFINITY, f64::NAN];
        let mut xs = [0.0f64; MAXN];
        for j in 0..MAXN { let k = i.u8(); vassume!(i, k < 8); xs[j] = ALPHABET[k as usize]; }
        let len = i.usize();
        vassume!(i, len <= MAXN);
        let mut rmin = f64::INFINITY; let mut rmax = f64::NEG_INFINITY;
        let mut smin = Min::new(); let mut smax = Max::new();
        for j in 0..MAXN { if j < len {
            smin.add(xs[j]); smax.add(xs[j]);
            if !xs[j].is_nan() { if xs[j] < rmin { rmin = xs[j]; } if xs[j] > rmax { rmax = xs[j]; } }
        } }
        let a: Min = by_value(&xs, len).collect();
        let b: Min = by_ref(&xs, len).collect();
        vassert!(i, a.min() == smin.min() && b.min() == smin.min() && a.min() == rmin, "C19:parallel-min-is-sequential-min");
        let a: Max = by_value(&xs, len).collect();
        let b: Max = by_ref(&xs, len).collect();
        vassert!(i, a.max() == smax.max() && b.max() == smax.max() && a.max() == rmax, "C19:parallel-max-is-sequential-max");
        vcover!(i, len == 4 && xs[0].is_nan(), "four-items-nan-first");
        vcover!(i, len == 0, "empty-input");
    }
    fn mean_len [10] (i) { len_check!(i, Mean) }
    fn skewness_len_c [10] (i) { len_check_concrete!(i, Skewness) }
    fn kurtosis_len_c [10] (i) { len_check_concrete!(i, Kurtosis) }
    fn moments4_len_c [10] (i) { len_check_concrete!(i, M4) }
    fn moments5_len_c [10] (i) { len_check_concrete!(i, M5) }
    fn variance_len [10] (i) { len_check!(i, Variance) }
    fn skewness_len [10] (i) { len_check!(i, Skewness) }
    fn kurtosis_len [10] (i) { len_check!(i, Kurtosis) }
    fn moments4_len [10] (i) { len_check!(i, M4) }
    fn moments5_len [10] (i) { len_check!(i, M5) }
    /// the mean of the parallel result stays inside the data range (two items: a single merge decides it bit-precisely)
    fn mean_two_items [10] (i) {
        schedule(i);
        let (x, y) = (dom_f64(i), dom_f64(i));
        let xs = [x, y, 0.0, 0.0];
        let a: Mean = by_value(&xs, 2).collect();
        let lo = if x < y { x } else { y };
        let hi = if x < y { y } else { x };
        vassert!(i, a.len() == 2, "C19:parallel-len-is-sequential-len");
        vassert!(i, a.mean() >= lo && a.mean() <= hi, "C19:parallel-mean-within-data-range");
        vcover!(i, x < 0.0 && y > 0.0, "straddles-zero");
    }
}
