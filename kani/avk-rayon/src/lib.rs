//! C19 — parallel collection gives the sequential answer under every schedule (schedule = symbolic choices of the rayon stub).
#![allow(clippy::all)]
#[macro_use]
#[path = "../../avk/src/inp.rs"]
pub mod inp;
#[path = "../../avk/src/util.rs"]
pub mod util;
#[path = "../../avk/src/types.rs"]
pub mod types;
#[path = "../../avk/src/hists.rs"]
pub mod hists;
pub mod c19;

pub fn registry() -> Vec<(&'static str, &'static [(&'static str, fn(&mut inp::VecInp))])> {
    vec![("c19", c19::HARNESSES)]
}
