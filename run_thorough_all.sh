#!/bin/sh
# run every thorough check concurrently (the Kani slot pool caps the number of solver processes) and print one summary line each (development aid)
cd "$(dirname "$0")"
mkdir -p .work
for p in ${PROPS:-C01 C02 C03 C04 C05 C06 C07 C08 C09 C10 C11 C12 C13 C14 C15 C16 C17 C18 C19 C20}; do
  (
  s=$(date +%s)
  ./check $p --tier thorough > .work/thorough_$p.out 2>&1
  rc=$?
  e=$(date +%s)
  echo "$p rc=$rc $((e-s))s $(grep -c '^VIOLATION' .work/thorough_$p.out) violations $(grep -c '^KNOWN-FINDING' .work/thorough_$p.out) known $(grep -c '^INCONCLUSIVE' .work/thorough_$p.out) inconclusive"
  ) &
done
wait
