import json
import os
import sys

sys.path.insert(0, os.path.dirname(os.path.dirname(os.path.abspath(__file__))))
from vlib import driver, plan  # noqa: E402


def main(argv):
    if not argv:
        print(__doc__ or "usage: check <Cxx> [--tier quick|thorough] | --replay <file>")
        return 3
    if argv[0] == "--replay":
        rec = json.load(open(argv[1]))
        if rec.get("engine") == "kani":
            rp = driver.native_replay(rec)
            print(json.dumps(rp, indent=1))
            if rp["violated"]:
                print("VIOLATION property=%s replay=%s roles=%s" % (rec["property"], argv[1], rp["roles"]))
                return 1
            return 0
        from mirsym import mengine
        return mengine.replay_file(argv[1])
    prop = argv[0]
    tier = os.environ.get("VERIF_TIER", "quick")
    if "--tier" in argv:
        tier = argv[argv.index("--tier") + 1]
    if tier not in ("quick", "thorough"):
        tier = "quick"
    if prop not in plan.PLANS:
        print("no plan for", prop)
        return 3
    return driver.run_property(prop, tier, plan.PLANS[prop])


if __name__ == "__main__":
    sys.exit(main(sys.argv[1:]))
