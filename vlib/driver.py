"""Driver shared by every property check: runs the obligations of a property/tier on engines
K (Kani) and M (mirsym), confirms counterexamples natively, applies known findings, writes
evidence, prints VIOLATION / KNOWN-FINDING lines and sets the exit code (0 / 1 / 2)."""
import json
import os
import re
import subprocess
import sys
import time

from . import kani_engine as K

VERIF = K.VERIF
WORK = K.WORK
REPLAYS = os.path.join(VERIF, "replays")
EVIDENCE = os.path.join(VERIF, "evidence")
KNOWN = os.path.join(VERIF, "known_findings.json")
# which native replayer crate serves which harness crate (one target directory each)
REPLAYERS = {"avk": "replayer", "avk-serde": "replayer-serde", "avk-rayon": "replayer-rayon"}


def log(*a):
    print(*a, flush=True)


def load_known():
    if not os.path.exists(KNOWN):
        return []
    with open(KNOWN) as f:
        return json.load(f).get("findings", [])


def known_for(prop, role):
    """Return the known-finding entry (kind == 'known') that lists this role for this property."""
    for e in load_known():
        if e.get("kind") != "known" or e.get("property") != prop:
            continue
        keys = e.get("keys") or [e.get("key")]
        for k in keys:
            if k and (role == k or re.fullmatch(k, role)):
                return e
    return None


_built = {}


def build_replayer(profile, crate="avk"):
    """(Re)build the native replayer against /repo's current tree with the repo's toolchain."""
    key = (profile, crate)
    if key in _built:
        return _built[key]
    rdir = REPLAYERS.get(crate, "replayer")
    target = os.path.join(WORK, rdir + "-target")
    cmd = ["cargo", "build", "--offline", "--target-dir", target]
    if profile == "release":
        cmd.append("--release")
    p = subprocess.run(cmd, cwd=os.path.join(VERIF, rdir), env=K.ENV, stdout=subprocess.PIPE, stderr=subprocess.STDOUT, text=True)
    exe = os.path.join(target, profile if profile == "release" else "debug", "replayer")
    ok = p.returncode == 0 and os.path.exists(exe)
    _built[key] = (exe if ok else None, p.stdout[-2000:])
    return _built[key]


def panic_role(msg):
    """Role for a panic inside the code under test: message without the location part."""
    m = msg.split(" @ ")[0].strip()
    m = re.sub(r"\s+", " ", m)
    return "panic:" + m[:120]


def native_replay(rec, allow_panic=()):
    """Run a replay record natively in dev and release. Returns dict with 'violated', 'roles'."""
    os.makedirs(WORK, exist_ok=True)
    out = {"profiles": {}, "violated": False, "roles": []}
    vals_path = os.path.join(WORK, "replay_vals_%d.json" % os.getpid())
    with open(vals_path, "w") as f:
        json.dump(rec["values"], f)
    for prof in ("debug", "release"):
        exe, buildlog = build_replayer(prof, rec.get("crate", "avk"))
        if exe is None:
            out["profiles"][prof] = {"error": "replayer build failed", "log": buildlog}
            continue
        try:
            p = subprocess.run([exe, "harness", rec["harness"], vals_path], stdout=subprocess.PIPE,
                               stderr=subprocess.PIPE, text=True, timeout=120)
            line = p.stdout.strip().splitlines()[-1] if p.stdout.strip() else ""
            r = json.loads(line)
        except Exception as e:
            out["profiles"][prof] = {"error": repr(e)}
            continue
        roles = list(r.get("roles", []))
        if r.get("panic"):
            pr = panic_role(r["panic"])
            if any(re.search(a, r["panic"]) for a in allow_panic):
                r["panic_allowed"] = True
                if not roles:
                    r["violated"] = False
            else:
                roles.append(pr)
        r["roles_all"] = roles
        out["profiles"][prof] = r
        if r.get("violated") and roles:
            out["violated"] = True
            for x in roles:
                if x not in out["roles"]:
                    out["roles"].append(x)
    try:
        os.remove(vals_path)
    except OSError:
        pass
    return out


class Outcome:
    def __init__(self):
        self.violations = []   # (role, replay_path, what)
        self.known = []        # (key, what)
        self.inconclusive = [] # text
        self.unestablished = []  # advisory obligations of over-approximating analyses that were neither proved nor refuted natively
        self.samples = []


def handle_kani_result(prop, res, ob, outc):
    """Triage one K result: proved / inconclusive / failed (replay, known-finding filter)."""
    sample = {"obligation": res["obligation"], "verdict": res["status"], "wall_s": res.get("wall_s"),
              "solver_s": res.get("solver_s"), "checks": res.get("n_checks"), "note": ob.note}
    if res.get("covers"):
        sample["covers_satisfied"] = sum(1 for c in res["covers"] if c["status"] == "SATISFIED")
    if res["status"] == "proved":
        outc.samples.append(sample)
        return
    if res["status"] == "inconclusive":
        sample["reason"] = res.get("reason")
        outc.samples.append(sample)
        outc.inconclusive.append("%s: %s" % (res["obligation"], res.get("reason")))
        return
    failed = res.get("failed", [])
    sample["failed_checks"] = [f["role"] for f in failed]
    # replay
    tests = res.get("playback_tests") or []
    confirmed = False
    os.makedirs(REPLAYS, exist_ok=True)
    seen_roles = set()
    for k, vals in enumerate(tests):
        rec = {"property": prop, "engine": "kani", "crate": ob.crate, "harness": ob.harness, "values": vals,
               "solver_failed_checks": [f["role"] for f in failed]}
        rp = native_replay(rec, allow_panic=getattr(ob, "allow_panic", ()))
        rec["native"] = rp
        if not rp["violated"]:
            continue
        confirmed = True
        new_roles = [r for r in rp["roles"] if r not in seen_roles]
        if not new_roles:
            continue
        seen_roles.update(new_roles)
        path = os.path.join(REPLAYS, "%s__%s__%d.json" % (prop, ob.harness.replace("::", "_"), k))
        with open(path, "w") as f:
            json.dump(rec, f, indent=1)
        for role in new_roles:
            e = known_for(prop, role)
            if e:
                outc.known.append((role, e.get("what", ""), path))
            else:
                outc.violations.append((role, path, "harness %s" % ob.harness))
    if not confirmed:
        sample["verdict"] = "inconclusive"
        sample["reason"] = ("solver counterexample did not reproduce natively (%d playback tests); failed checks: %s"
                            % (len(tests), [f["role"] for f in failed][:4]))
        outc.inconclusive.append("%s: %s" % (res["obligation"], sample["reason"]))
    else:
        sample["verdict"] = "violated"
        sample["roles"] = sorted(seen_roles)
    outc.samples.append(sample)


def write_evidence(prop, tier, seed, t0, outc, meta, n_oblig, n_proved, solver_s):
    os.makedirs(EVIDENCE, exist_ok=True)
    cov = {
        "evaluations": n_oblig,
        "distinct_nontrivial": n_proved,
        "rule": ("one evaluation = one solver obligation (a Kani proof harness decided by CBMC/cadical, or a mirsym SMT query "
                 "set decided by z3); it counts as non-trivial only if the solver verdict was 'holds within the bound' AND its "
                 "reachability witnesses (cover properties / antecedent-satisfiable checks) were confirmed on this run"),
        "samples": outc.samples,
        "obligations": n_oblig,
        "discharged": n_proved,
        "exhaustive": False,
        "solver_time_s": round(solver_s, 2),
        "functions_encoded": meta.get("functions_encoded", []),
        "bounds": meta.get("bounds", []),
        "outside_bounds": meta.get("outside_bounds", []),
        "stubs_and_assumes": meta.get("stubs_and_assumes", []),
        "inconclusive": outc.inconclusive,
        "unestablished": outc.unestablished,
        "known_findings_hit": [{"key": k, "what": w, "replay": p} for (k, w, p) in outc.known],
        "violations": [{"role": r, "replay": p, "where": w} for (r, p, w) in outc.violations],
        "toolchain": meta.get("toolchain", {}),
        "mirsym": meta.get("mirsym", {}),
    }
    ev = {
        "property_id": prop,
        "tier": tier,
        "seed": seed,
        "level": "model_checking",
        "coverage": cov,
        "assumptions": meta.get("assumptions", []),
        "wall_s": round(time.time() - t0, 2),
        "violations": len(outc.violations),
    }
    with open(os.path.join(EVIDENCE, prop + ".json"), "w") as f:
        json.dump(ev, f, indent=1)


def toolchain_info():
    info = {}
    for k, cmd in (("kani", ["cargo", "kani", "--version"]), ("rustc", ["rustc", "--version"]),
                   ("z3", ["z3", "--version"]), ("cbmc", ["cbmc", "--version"])):
        try:
            info[k] = subprocess.run(cmd, stdout=subprocess.PIPE, stderr=subprocess.STDOUT, text=True,
                                     timeout=60, env=K.ENV).stdout.strip().splitlines()[0]
        except Exception as e:
            info[k] = "unavailable: %r" % (e,)
    try:
        info["repo_head"] = subprocess.run(["git", "-C", "/repo", "rev-parse", "--short", "HEAD"], stdout=subprocess.PIPE,
                                           text=True).stdout.strip()
        info["repo_dirty"] = bool(subprocess.run(["git", "-C", "/repo", "status", "--porcelain", "--untracked-files=no"],
                                                 stdout=subprocess.PIPE, text=True).stdout.strip())
    except Exception:
        pass
    return info


def run_property(prop, tier, plan):
    """plan: dict with 'k' (list of Obl, each with .tier), 'm' (callable(tier, seed) -> list of M results), 'meta'."""
    t0 = time.time()
    seed = int(os.environ.get("VERIF_SEED", "0") or 0)
    outc = Outcome()
    tiers = ("quick",) if tier == "quick" else ("quick", "thorough")
    obls = [o for o in plan.get("k", []) if o.tier in tiers]
    only = os.environ.get("VERIF_ONLY")  # debugging aid: restrict to obligations whose name contains this
    if only:
        obls = [o for o in obls if only in o.name]
    logdir = os.path.join(WORK, "logs", prop)
    n_oblig = 0
    n_proved = 0
    solver_s = 0.0

    # engine M first (seconds), in this process
    mres = []
    mmeta = {}
    if plan.get("m") and not os.environ.get("VERIF_ONLY", "").startswith("K:"):
        try:
            log("[%s] engine M: symbolic execution of the MIR of /repo's working tree (tier %s)" % (prop, tier))
            mres = plan["m"](tier, seed)
            if isinstance(mres, tuple):
                mres, mmeta = mres
        except Exception as e:
            import traceback
            traceback.print_exc()
            outc.inconclusive.append("mirsym crashed: %r" % (e,))
            mres = []
    for r in mres:
        n_oblig += 1
        solver_s += r.get("solver_s") or 0.0
        s = {k: r[k] for k in r if k not in ("replay", "model")}
        if r["verdict"] != "proved":
            log("  %-70s %-12s %s" % (r["obligation"][:70], r["verdict"], (r.get("reason") or "")[:160]))
        outc.samples.append(s)
        if r["verdict"] == "proved":
            n_proved += 1
        elif r["verdict"] == "unestablished":
            outc.unestablished.append("%s: %s" % (r["obligation"], r.get("reason")))
        elif r["verdict"] == "violated":
            role = r.get("role", r["obligation"])
            e = known_for(prop, role)
            if e:
                outc.known.append((role, e.get("what", ""), r.get("replay_path")))
            else:
                outc.violations.append((role, r.get("replay_path"), r["obligation"]))
        else:
            outc.inconclusive.append("%s: %s" % (r["obligation"], r.get("reason")))

    if obls:
        log("[%s] engine K: %d harnesses (tier %s)" % (prop, len(obls), tier))
        results = K.run_all(obls, logdir)
        for ob, res in zip(obls, results):
            n_oblig += 1
            solver_s += res.get("solver_s") or 0.0
            handle_kani_result(prop, res, ob, outc)
            if outc.samples and outc.samples[-1].get("verdict") == "proved":
                n_proved += 1
            log("  %-46s %-12s %6.1fs %s" % (res["obligation"], outc.samples[-1].get("verdict"), res.get("wall_s") or 0,
                                            (outc.samples[-1].get("reason") or "")[:150]))

    meta = dict(plan.get("meta", {}))
    meta["toolchain"] = toolchain_info()
    if mmeta:
        meta["mirsym"] = mmeta
        meta["functions_encoded"] = list(meta.get("functions_encoded", [])) + ["MIR: " + f for f in mmeta.get("functions_executed", [])]
        meta["stubs_and_assumes"] = list(meta.get("stubs_and_assumes", [])) + ["mirsym model: " + x for x in mmeta.get("models_used", [])]
    if mres:
        npm = sum(1 for r in mres if r["verdict"] == "proved")
        log("[%s] engine M: %d/%d obligations discharged" % (prop, npm, len(mres)))
    write_evidence(prop, tier, seed, t0, outc, meta, n_oblig, n_proved, solver_s)

    seen = set()
    for (k, w, p) in outc.known:
        if k in seen:
            continue
        seen.add(k)
        log("KNOWN-FINDING: property=%s %s (%s) replay=%s" % (prop, k, w, p))
    for (r, p, w) in outc.violations:
        log("VIOLATION property=%s replay=%s role=%s %s" % (prop, p, r, w))
    if outc.violations:
        return 1
    if outc.inconclusive:
        for t in outc.inconclusive:
            log("INCONCLUSIVE %s %s" % (prop, t))
        return 2
    log("[%s] %s: %d/%d obligations discharged in %.1fs" % (prop, tier, n_proved, n_oblig, time.time() - t0))
    return 0
