"""Engine K: run Kani proof harnesses of /verif/kani/<crate> against /repo's working tree.

One obligation = one #[kani::proof] harness.  Harnesses run concurrently, each in its own
process group, under a wall-clock cap and an address-space cap, each in a private cargo
target directory ("slot") so that concurrent cargo builds do not contend.  The verdict is
CBMC's: SUCCESSFUL within the unwinding bound (unwinding assertions on) or a concrete
counterexample, which is decoded from Kani's concrete playback and replayed natively.
"""
import fcntl
import json
import os
import re
import resource
import signal
import subprocess
import threading
import time

VERIF = os.path.dirname(os.path.dirname(os.path.abspath(__file__)))
WORK = os.path.join(VERIF, ".work")
KANI_DIR = os.path.join(VERIF, "kani")
NSLOTS = int(os.environ.get("VERIF_SLOTS", "12"))

ENV = dict(os.environ)
ENV["CARGO_NET_OFFLINE"] = "true"
ENV.setdefault("CARGO_TERM_COLOR", "never")

CHECK_RE = re.compile(
    r"Check \d+: (?P<name>[^\n]+)\n\s*- Status: (?P<status>\w+)\n\s*- Description: \"(?P<desc>[^\n]*)\"(?:\n\s*- Location: (?P<loc>[^\n]*))?"
)


# CBMC's optional float checks flag IEEE-754 results that are legal in Rust (inf - inf = NaN, overflow to inf);
# they are neither panics nor undefined behaviour and are not part of any property here.
BENIGN = (r"^NaN on (addition|subtraction|multiplication|division)", r"^arithmetic overflow on floating-point")


class Obl:
    """A K obligation: harness `mod::name` of crate `crate` (directory under /verif/kani)."""

    def __init__(self, harness, crate="avk", timeout=300, mem_gb=16, extra=(), note="", tier="quick",
                 allow_fail=(), require_fail=(), allow_panic=(), must_panic=False):
        self.harness = harness
        self.crate = crate
        self.timeout = timeout
        self.mem_gb = mem_gb
        self.extra = list(extra)
        self.note = note
        self.tier = tier
        # expected (mandated) panics: regexes over "<description> @ <location>" of failed checks that are allowed,
        # and that must be present (the reachability witness of a must-panic harness, whose end is unreachable)
        self.allow_fail = tuple(allow_fail) + BENIGN
        self.require_fail = tuple(require_fail)
        self.allow_panic = tuple(allow_panic)
        self.must_panic = must_panic

    @property
    def full(self):
        return self.harness + "::proof"

    @property
    def name(self):
        return "K:%s/%s" % (self.crate, self.harness)


class Slot:
    def __init__(self):
        os.makedirs(WORK, exist_ok=True)
        self.fd = None
        self.idx = None

    def __enter__(self):
        while True:
            for k in range(NSLOTS):
                p = os.path.join(WORK, "kt%d.lock" % k)
                fd = os.open(p, os.O_CREAT | os.O_RDWR, 0o644)
                try:
                    fcntl.flock(fd, fcntl.LOCK_EX | fcntl.LOCK_NB)
                    self.fd, self.idx = fd, k
                    return os.path.join(WORK, "kt%d" % k)
                except OSError:
                    os.close(fd)
            time.sleep(0.5)

    def __exit__(self, *a):
        fcntl.flock(self.fd, fcntl.LOCK_UN)
        os.close(self.fd)


def _run(cmd, cwd, timeout, mem_gb, logpath):
    """Run cmd in its own session; kill the whole group on timeout. Returns (rc|None, text, secs)."""

    def pre():
        os.setsid()
        lim = int(mem_gb * (1 << 30))
        resource.setrlimit(resource.RLIMIT_AS, (lim, lim))

    t0 = time.time()
    with open(logpath, "w") as log:
        p = subprocess.Popen(cmd, cwd=cwd, env=ENV, stdout=log, stderr=subprocess.STDOUT, preexec_fn=pre)
        try:
            rc = p.wait(timeout=timeout)
        except subprocess.TimeoutExpired:
            try:
                os.killpg(p.pid, signal.SIGKILL)
            except ProcessLookupError:
                pass
            p.wait()
            rc = None
    secs = time.time() - t0
    with open(logpath, errors="replace") as f:
        text = f.read()
    return rc, text, secs


def parse(text):
    """Parse Kani's regular output."""
    checks = [m.groupdict() for m in CHECK_RE.finditer(text)]
    for c in checks:
        d = c["desc"]
        if len(d) >= 2 and d[0] == '"' and d[-1] == '"':
            c["desc"] = d[1:-1]
    verdict = None
    m = re.search(r"VERIFICATION:- (\w+)", text)
    if m:
        verdict = m.group(1)
    failed = [c for c in checks if c["status"] in ("FAILURE", "FAILED")]
    covers = [c for c in checks if c["status"] in ("SATISFIED", "UNSATISFIABLE", "UNREACHABLE", "UNDETERMINED") and ".cover." in c["name"]]
    undet = [c for c in checks if c["status"] == "UNDETERMINED"]
    stubs = re.findall(r"- Stub: ([^\n]+)", text)
    vt = re.search(r"Verification Time: ([0-9.]+)s", text)
    return {
        "verdict": verdict,
        "n_checks": len(checks),
        "failed": failed,
        "covers": covers,
        "undetermined": undet,
        "stubs": stubs,
        "solver_s": float(vt.group(1)) if vt else None,
    }


def playback_values(text):
    """Extract concrete byte vectors from `--concrete-playback=print` output.
    Returns a list of value-lists (one per generated unit test)."""
    tests = []
    for m in re.finditer(r"let concrete_vals: Vec<Vec<u8>> = vec!\[(.*?)\n\s*\];", text, re.S):
        vals = []
        for line in m.group(1).splitlines():
            mm = re.search(r"vec!\[([0-9,\s]*)\]", line)
            if mm:
                body = mm.group(1).strip()
                vals.append([int(b) for b in body.split(",") if b.strip()] if body else [])
        tests.append(vals)
    return tests


def run_obligation(ob, logdir):
    """Run one harness; returns a result dict (no replay here)."""
    os.makedirs(logdir, exist_ok=True)
    crate_dir = os.path.join(KANI_DIR, ob.crate)
    logpath = os.path.join(logdir, ob.crate + "__" + ob.harness.replace("::", "__") + ".log")
    res = {"obligation": ob.name, "engine": "kani", "harness": ob.full, "crate": ob.crate, "note": ob.note,
           "timeout_s": ob.timeout}
    with Slot() as tdir:
        cmd = ["cargo", "kani", "--target-dir", tdir + "_" + ob.crate, "--harness", ob.full, "--exact"] + ob.extra
        rc, text, secs = _run(cmd, crate_dir, ob.timeout, ob.mem_gb, logpath)
        res["wall_s"] = round(secs, 2)
        res["log"] = logpath
        if rc is None:
            res.update(status="inconclusive", reason="timeout after %ds" % ob.timeout)
            return res
        p = parse(text)
        res["solver_s"] = p["solver_s"]
        res["n_checks"] = p["n_checks"]
        res["stubs"] = p["stubs"]
        if p["verdict"] is None:
            tail = text[-600:]
            reason = "no verdict (rc=%s)" % rc
            if "error[" in text or "error:" in text:
                reason = "build or tool error (rc=%s)" % rc
            if "out of memory" in text.lower() or "bad_alloc" in text or "Status: ERROR" in text:
                reason = "out of memory / solver error"
            res.update(status="inconclusive", reason=reason, tail=tail)
            return res
        covers = p["covers"]
        res["covers"] = [{"what": c["desc"], "status": c["status"]} for c in covers]
        if p["verdict"] == "SUCCESSFUL":
            bad = []
            for c in covers:
                must_unreach = c["desc"].startswith("must-be-unreachable:")
                if must_unreach and c["status"] == "SATISFIED":
                    bad.append(c)
                if not must_unreach and c["status"] != "SATISFIED":
                    bad.append(c)
            if p["undetermined"]:
                res.update(status="inconclusive", reason="undetermined checks: %s" % p["undetermined"][:3])
            elif any(c["desc"].startswith("must-be-unreachable:") and c["status"] == "SATISFIED" for c in bad):
                # a statement that must not be reachable (e.g. after a mandated panic) is reachable: a violation
                res.update(status="failed", failed=[{"role": c["desc"], "loc": c.get("loc")} for c in bad
                                                      if c["desc"].startswith("must-be-unreachable:")])
            elif bad:
                res.update(status="inconclusive",
                           reason="vacuity guard: cover not satisfied: %s" % [c["desc"] for c in bad])
            elif not any(c["desc"] == "end-reached" for c in covers):
                res.update(status="inconclusive", reason="vacuity guard: no end-reached cover in output")
            elif ob.require_fail:
                res.update(status="inconclusive", reason="vacuity guard: the mandated panic was not reached")
            else:
                res.update(status="proved")
            return res
        # FAILED
        failed = p["failed"]
        unwind = [c for c in failed if "unwinding assertion" in c["desc"]]
        unsupported = [c for c in failed if "unsupported" in c["desc"].lower() or "not currently supported" in c["desc"]]
        real = [c for c in failed if c not in unwind and c not in unsupported]
        allowed = [c for c in real if any(re.search(a, "%s @ %s" % (c["desc"], c.get("loc"))) for a in ob.allow_fail)]
        real = [c for c in real if c not in allowed]
        res["allowed_failures"] = sorted(set(c["desc"] for c in allowed))
        if not real and not unwind and not unsupported:
            # only benign / mandated failures: judge by covers and by the presence of the mandated panic
            missing = [r for r in ob.require_fail if not any(re.search(r, "%s @ %s" % (c["desc"], c.get("loc"))) for c in allowed)]
            reach = [c for c in covers if c["desc"].startswith("must-be-unreachable:") and c["status"] == "SATISFIED"]
            notsat = [c for c in covers if not c["desc"].startswith("must-be-unreachable:") and c["status"] != "SATISFIED"
                      and not (ob.must_panic and c["desc"] == "end-reached")]
            if p["undetermined"]:
                res.update(status="inconclusive", reason="undetermined checks")
                return res
            if reach:
                real = [{"desc": c["desc"], "loc": c.get("loc"), "name": c["name"]} for c in reach]
            elif missing:
                res.update(status="inconclusive", reason="vacuity guard: mandated panic not reached: %s" % missing)
                return res
            elif notsat:
                res.update(status="inconclusive", reason="vacuity guard: cover not satisfied: %s" % [c["desc"] for c in notsat])
                return res
            elif ob.must_panic and any(c["desc"] == "end-reached" and c["status"] == "SATISFIED" for c in covers):
                real = [{"desc": "must-be-unreachable:end-reached", "loc": None, "name": "end"}]
            else:
                res.update(status="proved")
                return res
        res["failed"] = [{"role": c["desc"], "loc": c.get("loc"), "check": c["name"]} for c in real]
        if not real:
            why = "unwinding bound too small" if unwind else ("unsupported construct" if unsupported else "FAILED without failed checks")
            res.update(status="inconclusive", reason=why + ": " + "; ".join((c["desc"] + " @ " + str(c.get("loc"))) for c in (unwind + unsupported)[:3]))
            return res
        res["status"] = "failed"
        # second run for concrete values
        cmd2 = cmd + ["-Z", "concrete-playback", "--concrete-playback=print"]
        rc2, text2, secs2 = _run(cmd2, crate_dir, ob.timeout * 2, ob.mem_gb, logpath + ".playback")
        res["playback_wall_s"] = round(secs2, 2)
        tests = playback_values(text2) if rc2 is not None else []
        res["playback_tests"] = tests
        return res


def run_all(obls, logdir, jobs=None):
    jobs = jobs or min(NSLOTS, max(1, len(obls)))
    out = [None] * len(obls)
    lock = threading.Lock()
    idx = [0]

    def worker():
        while True:
            with lock:
                k = idx[0]
                idx[0] += 1
            if k >= len(obls):
                return
            try:
                out[k] = run_obligation(obls[k], logdir)
            except Exception as e:  # never let a crash look like success
                out[k] = {"obligation": obls[k].name, "engine": "kani", "status": "inconclusive",
                          "reason": "driver exception: %r" % (e,)}

    # longest first
    order = sorted(range(len(obls)), key=lambda k: -obls[k].timeout)
    obls_sorted = [obls[k] for k in order]
    obls_local = obls
    obls = obls_sorted
    out = [None] * len(obls)
    ths = [threading.Thread(target=worker) for _ in range(jobs)]
    for t in ths:
        t.start()
    for t in ths:
        t.join()
    # restore input order
    res = [None] * len(obls_local)
    for pos, k in enumerate(order):
        res[k] = out[pos]
    return res
