"""Per-property obligation plans (which harnesses / queries decide which property at which tier)."""
from .kani_engine import Obl

COMMON_ASSUME = [
    "engine K builds /repo with features std+verif-hooks (not the default libm): sqrt/ceil/min/max are compiler "
    "intrinsics modelled exactly by CBMC; the crate's own arithmetic is identical under both features",
    "Kani's pinned toolchain and its core library are what is model-checked; counterexamples are replayed on the "
    "repository's own toolchain (dev and release) before being reported",
    "u64 sample counts do not overflow",
]


def K(h, tier="quick", timeout=300, **kw):
    return Obl(h, tier=tier, timeout=timeout, **kw)


PLANS = {}


def M(name):
    """lazy binding to an engine-M plan function (mirsym.mengine.<name>)"""
    def run(tier, seed):
        import sys
        import os
        sys.path.insert(0, os.path.dirname(os.path.dirname(os.path.abspath(__file__))))
        from mirsym import mengine
        return getattr(mengine, name)(tier, seed)
    return run


M_ASSUME = [
    "engine M interprets f64 over the reals with an 'undefined' flag (NaN / division by zero / domain error): verdicts are about the "
    "formulas in exact arithmetic, for all real inputs and all counts; accumulated floating-point rounding is outside the claim",
    "counts are below 2^53 (u64 -> f64 exact) and, in inductive step queries, modelled as reals constrained to {0,1,2,3,4} U [5, 2^53)",
    "path feasibility is decided on the linear part of the path condition (over-approximation: only ever keeps extra paths)",
    "the MIR is regenerated from /repo's working tree on every run (cargo +nightly rustc -- -Zunpretty=mir, features libm + verif-hooks)",
]

PLANS["C14"] = {
    "k": [
        K("c14::step", note="one add / one merge from an arbitrary non-NaN state, full doubles: all histories"),
        K("c14::stream3", note="3 symbolic doubles incl. NaN/inf/-0.0, 3 chunks (empty allowed), both bracketings, "
                               "optional from_value seed"),
        K("c14::ingest3", note="collect by value / by reference, extend by value / by reference, reversed order: 3 symbolic doubles"),
        K("c14::ingest5", tier="thorough", note="same, 5 symbolic doubles"),
        K("c14::stream4", tier="thorough", timeout=1200, note="same with 4 symbolic doubles"),
        K("c14::stream5", tier="thorough", timeout=5400, note="same with 5 symbolic doubles"),
    ],
    "meta": {
        "functions_encoded": ["Min::{new,from_value,add,merge,min,estimate}", "Max::{new,from_value,add,merge,max,estimate}",
                              "FromIterator<f64>/<&f64> for Min, Max", "Extend<&f64> for Min", "f64::min/f64::max (core)"],
        "bounds": ["streams of 3 (quick) / 4 and 5 (thorough) doubles, 3 contiguous chunks", "one inductive step from any non-NaN state"],
        "outside_bounds": ["streams longer than 5 are covered only through the inductive step (state = one double)"],
        "assumptions": COMMON_ASSUME,
    },
}

HIST_FUNCS = ["define_histogram!{from_ranges,find,add,range_min,range_max,bins,ranges,__verif hooks}", "<[f64]>::binary_search_by (Kani's pinned core)",
              "f64::partial_cmp"]
PLANS["C06"] = {
    "k": [
        K("c06::len1", note="LEN 1: all edge pairs via real from_ranges (inf, -0.0, repeated edges), all samples incl. NaN (must be rejected without panic), arbitrary counts"),
        K("c06::len2", note="LEN 2"),
        K("c06::len3", note="LEN 3"),
        K("c06::len4", note="LEN 4"),
        K("c06::dup3", note="LEN 3, directed: sample exactly on a repeated edge never lands in the zero-width bin"),
        K("c06::dup4", note="LEN 4, same"),
        K("c06::fixed20", timeout=900, note="LEN 20, concrete edges j-3 (optionally infinite ends, one repeated edge at a symbolic position), sample any double"),
        K("c06::fixed33", timeout=900, note="LEN 33, same"),
        K("c06::fixed100", timeout=1800, note="LEN 100, same"),
        K("c06::len10", tier="thorough", timeout=3600, note="exported Histogram10"),
        K("c06::dup10", tier="thorough", timeout=3600, note="Histogram10 repeated edges"),
    ],
    "meta": {
        "functions_encoded": HIST_FUNCS,
        "bounds": ["LEN in {1,2,3,4} (quick) + 10 (thorough); edges and sample are unconstrained doubles (edges filtered by the real from_ranges)",
                   "counts: arbitrary u64 below u64::MAX, one add = inductive step over any add history",
                   "LEN 20, 33, 100: concrete edges j-3 (symbolically: infinite first/last edge, one repeated edge at any position), sample any double"],
        "outside_bounds": ["symbolic edge vectors for LEN > 10; LEN other than 1-4, 10, 20, 33, 100", "with_const_width-built histograms are covered through 'every valid edge vector' (C12 shows its edges are valid)",
                           "the choice among equal elements by binary_search is unspecified by std: the verdict is for Kani's pinned core; counterexamples are replayed on the repo toolchain"],
        "assumptions": COMMON_ASSUME,
    },
}

PLANS["C12"] = {
    "k": [
        K("c12::from_ranges1", note="LEN 1: any list of 0..4 unconstrained doubles (NaN, inf, -0.0): Result equals the first-offender spec"),
        K("c12::from_ranges2", note="LEN 2, lists of 0..5"),
        K("c12::from_ranges3", note="LEN 3, lists of 0..6"),
        K("c12::from_ranges4", note="LEN 4, lists of 0..7"),
        K("c12::const_width_struct2", note="LEN 2, all finite start<end with |.| in {0} U [1e-30,1e30]: LEN+1 edges, first == start, non-decreasing, zero counts"),
        K("c12::const_width_struct4", timeout=600, note="LEN 4, same"),
        K("c12::from_ranges10", tier="thorough", timeout=3600, note="Histogram10, lists of 0..13"),
    ],
    "meta": {
        "functions_encoded": ["define_histogram!{from_ranges,with_const_width,ranges,bins}", "Iterator::{take,copied,enumerate}"],
        "bounds": ["LEN in {1,2,3,4} (+10 thorough); input list length 0..LEN+3, elements unconstrained doubles",
                   "with_const_width: structural claims for LEN 2 and 4 on the full C12 magnitude domain"],
        "outside_bounds": ["LEN = 100", "with_const_width edge i within a few ulps of start + i*(end-start)/LEN: bit-blasting the divider/multiplier "
                           "did not finish in 10-15 min even for LEN 2 or on an i16 lattice; the formula is decided in exact arithmetic by engine M"],
        "assumptions": COMMON_ASSUME,
    },
}

SAME_RANGES = [r"Both histograms must have the same ranges"]
SAME_RANGES_ANY = [r"Both histograms must have the same ranges|placeholder message.*assert_failed"]
PLANS["C13"] = {
    "k": [
        K("c13::same_edges2", note="LEN 2: arbitrary valid edges (hook-built), arbitrary counts < 2^61: merge == += == bin-wise sum, commutes, associates, argument and edges unchanged"),
        K("c13::same_edges3", note="LEN 3"),
        K("c13::scale_reset2", note="LEN 2: *= k multiplies every count, reset zeroes and keeps edges bit for bit, usable again"),
        K("c13::scale_reset3", note="LEN 3"),
        K("c13::views2", timeout=600, note="LEN 2: iteration yields exactly LEN ((lower,upper),count) items in order; widths == upper-lower"),
        K("c13::views3", timeout=600, note="LEN 3"),
        K("c13::centers2", timeout=900, note="LEN 2: centers within 2 ulp of (lower+upper)/2 (bit-pattern distance)"),
        K("c13::diff_merge2", must_panic=True, allow_fail=SAME_RANGES, require_fail=SAME_RANGES, allow_panic=SAME_RANGES,
          note="LEN 2: edges differing at a symbolic index: merge panics on every input (statement after the call unreachable)"),
        K("c13::diff_merge3", must_panic=True, allow_fail=SAME_RANGES, require_fail=SAME_RANGES, allow_panic=SAME_RANGES, note="LEN 3"),
        K("c13::diff_addassign2", must_panic=True, allow_fail=SAME_RANGES, require_fail=SAME_RANGES, allow_panic=SAME_RANGES, note="LEN 2: += panics"),
        K("c13::diff_addassign3", must_panic=True, allow_fail=SAME_RANGES, require_fail=SAME_RANGES, allow_panic=SAME_RANGES, note="LEN 3"),
        K("c13::views1", tier="thorough", timeout=600, note="LEN 1"),
        K("c13::same_edges4", tier="thorough", timeout=1800, note="LEN 4"),
        K("c13::same_edges10", tier="thorough", timeout=3600, note="Histogram10"),
        K("c13::scale_reset10", tier="thorough", timeout=3600, note="Histogram10"),
        K("c13::views10", tier="thorough", timeout=3600, note="Histogram10"),
        K("c13::centers3", tier="thorough", timeout=3600, note="LEN 3"),
        # Histogram10 is expanded inside the crate: there Kani reports the assert_eq! through core::panicking::assert_failed_inner
        K("c13::diff_merge10", tier="thorough", timeout=1800, must_panic=True, allow_fail=SAME_RANGES_ANY, require_fail=SAME_RANGES_ANY, allow_panic=SAME_RANGES, note="Histogram10"),
        K("c13::diff_addassign10", tier="thorough", timeout=1800, must_panic=True, allow_fail=SAME_RANGES_ANY, require_fail=SAME_RANGES_ANY, allow_panic=SAME_RANGES, note="Histogram10"),
    ],
    "meta": {
        "functions_encoded": ["define_histogram!{Merge::merge, AddAssign<&Self>, MulAssign<u64>, reset, iter, IntoIterator, bins, ranges, find, add}",
                              "Histogram::{widths,centers,variance,variances,normalized_bins} + their iterators"],
        "bounds": ["LEN in {2,3} (quick) + {1,4,10} (thorough); operands built with the hook from arbitrary valid edges and counts below 2^61 (2^32 for *=)"],
        "outside_bounds": ["u64 overflow in += / *=", "LEN = 100",
                           "operand state at the instant of the panic (Kani ends the path at a panic); the real code checks all edges before mutating",
                           "normalized_bins == count/width and the variance formula value: one double division per bin does not bit-blast in 10 min; formula decided by engine M"],
        "assumptions": COMMON_ASSUME + ["CBMC's optional NaN/float-overflow checks are ignored: inf-inf = NaN is legal IEEE-754 behaviour, not a panic"],
    },
}

Q_FUNCS = ["Quantile::{new,add,quantile,len,is_empty,p,parabolic,linear,estimate}", "float_ord::sort (core slice sort)",
           "easy_cast::{Conv,ConvFloat} conversions", "f64::ceil, f64::max, core::cmp::min"]
PLANS["C07"] = {
    "k": [
        K("c07::grid1", note="n=1: p any double with <= 13 significant bits in {0} U [2^-12,1] (contains every m/4096), value any finite double"),
        K("c07::grid3", timeout=600, note="n=3, same p set, all value triples (full doubles) in arrival order: all permutations and ties"),
        K("c07::lat2", timeout=600, note="n=2, same p set, values on the lattice i16/4 (keeps the averaging products narrow)"),
        K("c07::lat4", timeout=900, note="n=4, same p set, lattice values: includes the averaging cases p = 1/4, 1/2, 3/4"),
        K("c07::twelfth2_lat", timeout=600, note="n=2: p = fl(c/12) and both floating-point neighbours, lattice values"),
        K("c07::twelfth3_lat", timeout=600, note="n=3: includes the unrepresentable thirds and both neighbours, lattice values"),
        K("c07::twelfth4_lat", tier="thorough", timeout=1800, note="n=4, lattice values"),
        K("c07::grid2", tier="thorough", timeout=3600, note="n=2, full-double values"),
        K("c07::grid4", tier="thorough", timeout=7200, note="n=4, full-double values"),
        K("c07::twelfth2", tier="thorough", timeout=3600, note="n=2, full doubles"),
        K("c07::twelfth3", tier="thorough", timeout=7200, note="n=3, full doubles"),
        K("c07::free1", tier="thorough", timeout=1800, note="n=1, p any double in [0,1]"),
        K("c07::free2", tier="thorough", timeout=7200, note="n=2, p any double in [0,1] (n*p exact)"),
    ],
    "meta": {
        "functions_encoded": Q_FUNCS,
        "bounds": ["n in {1,2,3,4} observations in every arrival order; values: any finite double with |x| <= 1e300 (grid1, grid3, thorough) or the lattice i16/4",
                   "p: 13-significant-bit grid containing every m/4096; c/12 +- 1 ulp; free double for n in {1,2} (thorough)"],
        "outside_bounds": ["free-double p at n = 3, 4 (did not finish in 15 min in probes)", "full-double values at n = 2, 4 are thorough-tier only"],
        "assumptions": COMMON_ASSUME + ["oracle: sorted copy v; p=0 -> v[0]; p=1 -> v[n-1]; exact whole n*p=j -> midpoint of v[j-1], v[j] (2r within 4 ulp of the sum); "
                                        "else v[ceil(n*p)-1]; when only fl(n*p) is within 1 ulp of whole j: any of v[j-1], v[j], their midpoint"],
    },
}

NEW_PANIC = [r"assertion failed: \(0\. \.\.=1\.\)\.contains\(&p\)"]
PLANS["C15"] = {
    "k": [
        K("c15::stream1", note="p any double in [0,1]; 1 finite observation: len/is_empty/p()/quantile range after every add"),
        K("c15::lat_stream3", timeout=900, note="3 observations on the lattice i16/4, p on the 13-bit grid"),
        K("c15::new_invalid", must_panic=True, allow_fail=NEW_PANIC, require_fail=NEW_PANIC, allow_panic=NEW_PANIC,
          note="Quantile::new(p) for every p outside [0,1] or NaN panics"),
        K("c15::stream2", tier="thorough", timeout=3600, note="2 full-double observations, p any double"),
        K("c15::lat_stream4", tier="thorough", timeout=3600, note="4 lattice observations"),
        K("c15::stream3", tier="thorough", timeout=7200, note="3 full-double observations"),
        K("c15::step_newmin", tier="thorough", timeout=3600, note="inductive step from any well-formed marker state (count <= 2^40, full doubles), sample below the first marker"),
        K("c15::step_top", tier="thorough", timeout=3600, note="same, sample at or above the last marker"),
        K("c15::step_interior", tier="thorough", timeout=7200, note="same, sample strictly inside the marker range"),
    ],
    "meta": {
        "functions_encoded": Q_FUNCS,
        "bounds": ["K: streams of 1 (full doubles), 3 and 5 (lattice i16/4) observations from new(p); one add from an arbitrary well-formed state (thorough)",
                   "M: every well-formed marker state with count >= 5, every p in [0,1], real heights"],
        "outside_bounds": ["height ordering after marker moves for off-lattice doubles (bit-blasting the parabolic formula does not finish); decided in exact arithmetic by engine M",
                           "a counterexample of the step harness starts from a hook-built state that may be unreachable; it is replayed natively from that state"],
        "assumptions": COMMON_ASSUME,
    },
}

MOMENT_FUNCS = ["Mean/Variance/Skewness/Kurtosis::{new,add,merge,accessors}", "define_moments!(Moments4, 4) / (M5, 5) in the harness crate",
                "Covariance::{new,add,merge,accessors}", "WeightedMean/WeightedMeanWithError::{new,add,merge,accessors}"]
STATE_INV = ("hook-built states satisfy the representation invariant: n == 0 => the new() values; n >= 1 => fields finite, "
             "sum of squares >= 0; n == 1 => central sums 0; counts <= 2^53")
PLANS["C11"] = {
    "k": [K("c11::" + h, timeout=600, note=n) for h, n in [
        ("mean", "Mean: merge with new()/default() on either side is bit-exact identity; argument unchanged; is_empty iff len==0"),
        ("mean_len", "Mean: any two states: merged len is the exact sum; argument unchanged"),
        ("variance", "Variance identity"), ("variance_len", "Variance lengths add"),
        ("skewness", "Skewness identity"), ("skewness_len", "Skewness lengths add"),
        ("kurtosis", "Kurtosis identity"), ("kurtosis_len", "Kurtosis lengths add"),
        ("moments4", "Moments4 identity"), ("moments4_len", "Moments4 lengths add"),
        ("moments5", "define_moments!(M5,5) identity"),
        ("covariance", "Covariance identity"), ("covariance_len", "Covariance lengths add"),
        ("weighted_mean", "WeightedMean identity (statistics)"),
        ("weighted_mean_with_error", "WeightedMeanWithError identity (all statistics), incl. all-zero-weight states"),
        ("weighted_mean_with_error_len", "WeightedMeanWithError lengths add"),
        ("histogram3", "LEN-3 histogram: zero-count histogram is the identity, totals add, edges kept"),
    ]],
    "meta": {
        "functions_encoded": MOMENT_FUNCS + ["define_histogram! Merge (LEN 3)", "derived Clone"],
        "bounds": ["one merge from arbitrary well-formed states (inductive: covers every history of adds and merges); " + STATE_INV],
        "outside_bounds": ["u64 count overflow; counts above 2^53", "Min/Max are covered by C14 (state is one double)"],
        "assumptions": COMMON_ASSUME + [STATE_INV],
    },
}

# assert_ne!(variance, 0.) in standardized_moment: Kani reports it inside core::panicking::assert_failed_inner with a placeholder message
STD_PANIC = [r"placeholder message.*assert_failed"]
STD_PANIC_NATIVE = [r"left != right"]
PLANS["C16"] = {
    "k": [
        K("c16::empty", timeout=600, note="every accessor of every estimator on new() and default(): documented sentinel, no panic"),
        K("c16::single", timeout=900, note="one observation x over the C01 domain: mean exactly x, spread statistics exactly 0, sample statistics NaN"),
        K("c16::single_weighted_zero", timeout=600, note="weighted estimators, one observation of weight 0: NaN sentinels, unweighted part exact"),
        K("c16::single_weighted_one", timeout=600, note="weighted estimators, one observation of weight 1"),
        K("c16::single_weighted_quarter", timeout=600, note="weight 0.25"),
        K("c16::single_weighted_three", timeout=600, note="weight 3"),
        K("c16::small_sentinels", timeout=900, note="sizes 2 and 3: sample_excess_kurtosis NaN, central_moment(0)=1, (1)=0"),
        K("c16::const_mean_variance", timeout=600, note="inductive step: n copies of x (n < 2^53, x in C01 domain) + add(x): mean exactly x, variance exactly 0"),
        K("c16::const_skewness", timeout=600, note="same for Skewness"),
        K("c16::const_kurtosis", timeout=600, note="same for Kurtosis"),
        K("c16::const_moments4", timeout=900, note="same for Moments4"),
        K("c16::const_covariance", timeout=600, note="same for Covariance"),
        K("c16::std_moment_zero_variance", must_panic=True, allow_fail=STD_PANIC, require_fail=STD_PANIC, allow_panic=STD_PANIC_NATIVE,
          note="standardized_moment(3|4) at zero variance asserts (the documented exception)"),
        K("c16::const_moments5", tier="thorough", timeout=1800, note="define_moments!(M5,5) constant stream step"),
    ],
    "meta": {
        "functions_encoded": MOMENT_FUNCS + ["Quantile::{new,add,quantile}", "Min/Max::{new,min,max}"],
        "bounds": ["sample sizes 0 and 1 for every accessor; 2 and 3 for the sample-size sentinels; constant streams of any length n < 2^53 by induction"],
        "outside_bounds": ["constant streams reached through merges"],
        "assumptions": COMMON_ASSUME,
    },
}

PLANS["C17"] = {
    "k": [
        K("c17::variance_add_sign", timeout=900, note="Variance: one add from an arbitrary state (|x|,|mean| <= 1e150, n < 2^53): sum of squares never decreases, variances >= 0, error not NaN"),
        K("c17::variance_merge_sign", timeout=900, note="Variance: merge of two arbitrary states"),
        K("c17::covariance_add_sign", timeout=900, note="Covariance x/y variances after add"),
        K("c17::covariance_merge_sign", timeout=900, note="Covariance x/y variances after merge"),
        K("c17::moments4_add_sign", tier="thorough", timeout=1800, note="Moments4 second central sum after add"),
        K("c17::mean_first", note="first observation: mean exactly x"),
        K("c17::mean_add_hull", timeout=1200, note="Welford step with count 1..1024: new mean between old mean and sample up to 2^-49*max"),
        K("c17::variance_mean_add_hull", tier="thorough", timeout=3600, note="same through Variance::add"),
        K("c17::effective_len_range", tier="thorough", timeout=3600, note="effective_len in [1,3] for three lattice weights k/4"),
    ],
    "meta": {
        "functions_encoded": MOMENT_FUNCS + ["Histogram::variance (LEN 2)"],
        "bounds": ["one add / one merge from arbitrary states with |values| <= 1e150, counts < 2^53 (inductive over histories)",
                   "mean hull: counts 1..1024"],
        "outside_bounds": ["mean hull under merge bit-precisely (decided in exact arithmetic by engine M)", "|x| > 1e150"],
        "assumptions": COMMON_ASSUME,
    },
}

QUICK_C20 = {("mean3", "a"), ("mean3", "b"), ("variance3", "a"), ("variance3", "b"), ("skewness3", "b"), ("weighted_err3", "a"), ("covariance3", "b")}
PLANS["C20"] = {
    "k": [
    ] + [K("c20::%s%s" % (h, s), timeout=600 if (h, s) in QUICK_C20 else 3600, tier="quick" if (h, s) in QUICK_C20 else "thorough",
           note="%s: concrete data vector %s, symbolic split: collect by value / by reference / extend in two pieces == add loop, bit for bit" % (h, s.upper()))
         for h in ("mean3", "variance3", "skewness3", "kurtosis3", "moments4_3", "covariance3", "weighted3", "weighted_err3") for s in ("a", "b")] + [
        K("c20::concat_short", timeout=600, note="concatenate! short syntax [Min,Max,Mean]: new/default/collect, prefix length symbolic"),
    ],
    "meta": {
        "functions_encoded": MOMENT_FUNCS + ["impl_from_iterator!, impl_extend! expansions", "FromIterator/Extend for pair estimators", "concatenate! expansions in the harness crate"],
        "bounds": ["K: two concrete data vectors of 3 values, symbolic split point / prefix length (bit-level agreement)",
                   "M: 3 (quick) / 4 (thorough) symbolic real values: identical add-call sequences and final states for every path; concatenate! with 3 / 5 values"],
        "outside_bounds": ["bit-level agreement for arbitrary doubles is implied by M's identical call sequences (add is deterministic), not bit-blasted"],
        "assumptions": COMMON_ASSUME,
    },
}


def _mplan(prop, fn, funcs, bounds, outside, k=()):
    PLANS.setdefault(prop, {"k": [], "meta": {"functions_encoded": [], "bounds": [], "outside_bounds": [], "assumptions": list(COMMON_ASSUME)}})
    pl = PLANS[prop]
    pl["m"] = M(fn)
    pl["k"] = list(pl.get("k", [])) + list(k)
    me = pl["meta"]
    me["functions_encoded"] = list(me.get("functions_encoded", [])) + funcs
    me["bounds"] = list(me.get("bounds", [])) + bounds
    me["outside_bounds"] = list(me.get("outside_bounds", [])) + outside
    me["assumptions"] = list(me.get("assumptions", [])) + M_ASSUME


ROUNDING_OUT = ("accumulated floating-point rounding error beyond the short streams named under bounds (n > 3..4; for C03, C04, C08-C10 any n) "
                "(DESIGN.md section 3): bit-blasting does not reach it and the rigorous-bound analysis grows exponentially in sign cases")

LAT_NOTE = "x_i = OFF + k_i, |k_i| <= 4, exact integer oracle: mean, population and sample variance inside the section-3 envelope (linear in kappa)"
_mplan("C01", "plan_c01", ["Mean/Variance: new, default, add (increment, add_inner), mean, len, is_empty, population_variance, sample_variance, "
                           "variance_of_mean, error, estimate"],
       ["M: inductive add-step for every n >= 0 and every real x; accessors on every exact summary; definitional streams of 1..5 (quick) / 1..7 (thorough) symbolic reals",
        "M (rounding mode): rigorous floating-point error bound of mean (n <= 4) and population/sample variance, variance_of_mean (n <= 3) after n adds from new() "
        "<= C*n*kappa*2^-53*scale for ALL finite data with kappa <= 1e12 (standard model, no underflow/overflow)"],
       [ROUNDING_OUT])
_mplan("C02", "plan_c02", ["Merge::merge for Mean, Variance, Skewness, Kurtosis, Moments4 and define_moments! at orders 5, 6"],
       ["M: merge-step for all counts na, nb >= 0 and all real summaries; 4 (quick) / 5 (thorough) symbolic values x every composition into <= 3 / <= 4 "
        "contiguous chunks (empty included) x every binary merge tree",
        "M (rounding mode): rigorous floating-point error bound of mean and population variance of chunks (1,1), (2,1), (1,2), (1,1,1) collected separately and "
        "merged left to right, within the envelope for all finite data with kappa <= 1e12"], [ROUNDING_OUT, "define_moments! merge at orders other than 4, 5, 6 (at 8 and 10 z3 answers 'unknown' for the top central sums after 10 min)"])
_mplan("C03", "plan_c03", ["Skewness/Kurtosis: new, add, add_inner, skewness, kurtosis, mean, variances, error_mean"],
       ["M: add-step all n; accessor identities on exact summaries (sign + squared identity for roots); definitional streams of 2..4 (5 thorough)",
        "M (rounding mode): rigorous floating-point error bound of mean and population_variance after 2, 3 adds inside the envelope (kappa <= 1e12)"],
       [ROUNDING_OUT])
_mplan("C04", "plan_c04", ["define_moments! expansions at N = 4 (crate's Moments4), 5, 6, 8, 10 (mirprobe crate): new, add, central_moment, standardized_moment, IterBinomial"],
       ["M: add-step for every p <= N, all n; central/standardized moment accessors for every p <= N; definitional streams of 2..3 (4 thorough)",
        "M (rounding mode): rigorous floating-point error bound of mean() after 2, 3 adds for N = 4, 5, 10 (the moment accessors of order >= 3 are not covered)"],
       [ROUNDING_OUT, "orders other than 4,5,6,8,10", "n*max|x|^N >= 1e300 (overflow)"])
_mplan("C08", "plan_c08", ["WeightedMean/WeightedMeanWithError: new, add, merge and every accessor"],
       ["M: add-step for any positive running weight and any w >= 0; merge-step for all total weights >= 0; accessors on symbolic states; "
        "definitional streams of 1..3 (4 thorough) pairs under every zero/positive weight pattern, with every 2- and 3-chunk merge tree"],
       [ROUNDING_OUT])
_mplan("C09", "plan_c09", ["Covariance: new, add, merge and every accessor"],
       ["M: add-step and merge-step for all counts; accessors (pearson via r*sqrt(Sxx*Syy) = Sxy and |r| <= 1); definitional streams of 1..3 (4 thorough) "
        "pairs with all 2/3-chunk merge trees and the x<->y swap",
        "M (rounding mode): rigorous floating-point error bound of mean_x/y and the x/y variances after 2, 3 adds and for chunks (2,1), (1,2) merged, and of the "
        "population/sample covariance of 2 pairs (added, or two singletons merged), inside the envelope for all finite data with kappa <= 1e12 in both coordinates"],
       [ROUNDING_OUT])
_mplan("C10", "plan_c10", ["sample_variance of Variance, Skewness, Kurtosis, Moments4, M5, M6, WeightedMeanWithError; variance_of_mean, error; "
                           "define_moments! sample_skewness and sample_excess_kurtosis (N = 4, 6)"],
       ["M: accessor identities on every exact summary, symbolic n (sample-size case splits at n = 0,1,2,3,4)",
        "M (rounding mode): rigorous floating-point error bound of sample_variance of Skewness, Kurtosis, Moments4, M6 after 2, 3 adds inside the envelope"], [ROUNDING_OUT])
_mplan("C05", "plan_c05", ["Quantile::{new, add, parabolic, linear, quantile, len, p} (MIR)"],
       ["M: one add from every well-formed marker state (count >= 5, p in [0,1], real heights): conformance to the P-square reference on every "
        "execution path; initialisation by five symbolic observations"],
       ["bit-level agreement of heights (the property allows 'the rounding of the same arithmetic')"],
       k=[K("c15::step_newmin", tier="thorough", timeout=3600, note="bit-precise bookkeeping step, sample below the first marker (C05 positions)"),
          K("c15::step_top", tier="thorough", timeout=3600, note="bit-precise bookkeeping step, sample at/above the last marker")])
_mplan("C17", "plan_c17", ["merge of Mean/Variance (hull), add of Variance/Moments4 (sign), WeightedMeanWithError (hull, effective_len)"],
       ["M: merged mean between the two means and merged sum of squares >= 0 for all summaries; weighted mean in [min,max] and effective_len in [1,n] for 2..3 (4) symbolic pairs"],
       [])

PLANS["C18"] = {
    "k": [K("c18::" + h, crate="avk-serde", timeout=900, note=n) for h, n in [
        ("mean", "Mean: arbitrary state -> derived Serialize -> tape -> derived Deserialize: state bit-equal, original untouched, "
                 "re-serialisation identical"),
        ("counts_full_range", "Mean, Variance, Kurtosis, Covariance, Moments4 with the sample size any u64 >= 2 (counts above 2^53 are reachable by self-merges): restored count identical"),
        ("variance", "Variance"), ("skewness", "Skewness"), ("kurtosis", "Kurtosis"), ("moments4", "crate's Moments4"),
        ("moments5_user", "user-instantiated define_moments!(S5, 5)"), ("minmax", "Min and Max"),
        ("weighted", "WeightedMean and WeightedMeanWithError"), ("covariance", "Covariance"),
        ("quantile", "Quantile, arbitrary fields (both the <5 phase and the marker phase)"),
        ("histogram3", "user-instantiated define_histogram!(.., 3) (BigArray path)"),
    ]] + [K("c18::histogram10", crate="avk-serde", tier="thorough", timeout=3600, note="exported Histogram10 (BigArray path)")],
    "meta": {
        "functions_encoded": ["serde_derive-generated Serialize/Deserialize impls of every estimator struct (incl. field-name visitors)",
                              "serde_big_array::BigArray for histogram arrays", "tape::{Ser, De} (the lossless in-memory format of the harness crate)"],
        "bounds": ["one round trip from an arbitrary state with finite fields (every checkpoint = every state); tape capacity 48 tokens"],
        "outside_bounds": ["serde_json's text encoding (unbounded digit loops): replaced by a lossless format, as the property allows",
                           "non-finite field values",
                           "bit-equal continuation beyond one add is implied: add/merge are functions of the state, which is shown bit-equal"],
        "stubs_and_assumes": ["data format = /verif/kani/avk-serde/src/tape.rs (raw bits + field names on a fixed-size tape)"],
        "assumptions": COMMON_ASSUME,
    },
}

PLANS["C19"] = {
    "k": [
        K("c19::minmax", crate="avk-rayon", timeout=900, note="Min/Max by value and by reference: up to 4 items over {-inf,-1,-0.0,0,1,2.5,+inf,NaN}, 3 pieces with symbolic cuts, "
                                                              "both bracketings, identity insertions at every node: exactly the sequential extreme"),
        K("c19::mean_len", crate="avk-rayon", timeout=900, note="Mean: len() == number of items for every schedule; empty input gives an empty estimator; f64 and &f64 items"),
        K("c19::variance_len", crate="avk-rayon", timeout=1200, note="Variance"),
        K("c19::skewness_len_c", crate="avk-rayon", tier="thorough", timeout=3600, note="Skewness, concrete data (symbolic length and schedule): with symbolic doubles the "
                                                                                       "float arithmetic of the merge does not finish in 90 min"),
        K("c19::mean_two_items", crate="avk-rayon", timeout=1200, note="two items: parallel mean inside [min,max] bit-precisely, for every schedule"),
    ],
    "meta": {
        "functions_encoded": ["impl_from_par_iterator! expansions (FromParallelIterator<f64> and <&f64>) for Mean, Variance, Min, Max (quick) and Skewness (thorough, concrete data)",
                              "rayon-stub::{ParallelIterator::fold, Folded::reduce, collect}", "the estimators' add / merge / new"],
        "bounds": ["<= 4 items, 3 contiguous pieces with symbolic cut points (empty pieces included), both bracketings, identity merged in on either side at every node"],
        "outside_bounds": ["real thread pools, work stealing, with_min_len/with_max_len: Kani does not model threads; rayon's conformance to its fold/reduce contract is trusted",
                           "the Kurtosis, Moments4 and define_moments! instantiations of the same macro: their len harnesses did not finish in 60-90 min (the float arithmetic of "
                           "the higher-order merges is bit-blasted although len() does not depend on it) and were withdrawn from the thorough tier",
                           "statistics within the envelope: inherited from C02 (every merge tree the stub can generate is one C02 quantifies over)"],
        "stubs_and_assumes": ["rayon replaced by /verif/kani/rayon-stub via [patch.crates-io]: schedule choices are symbolic bytes"],
        "assumptions": COMMON_ASSUME,
    },
}

_mplan("C20", "plan_c20", ["impl_from_iterator!/impl_extend! expansions for Mean, Variance, Skewness, Kurtosis, Moments4; FromIterator/Extend of WeightedMean, "
                           "WeightedMeanWithError, Covariance; Estimate::estimate; concatenate! structs CatShort/CatLong of the mirprobe crate"],
       [], [])

_mplan("C15", "plan_c15", ["Quantile::{new, add, quantile, len, is_empty, p} (MIR)"],
       ["M: positions/extreme markers on every execution path of one add from any well-formed state; height ordering and middle marker within [min,max] as properties of "
        "the P-square update the code is shown to conform to (C05)"], [])

# bit-precise envelope on integer lattices (catches algebraically equal but numerically unstable reformulations at n = 3)
PLANS["C01"]["k"] += [
    K("lat::variance3_off1e9", timeout=600, note="Variance, 3 adds, OFF = 1e9: " + LAT_NOTE),
    K("lat::variance3_off0", timeout=600, note="Variance, 3 adds, OFF = 0"),
    K("lat::mean3_off1e9", timeout=600, note="Mean, 3 adds, OFF = 1e9, |k| <= 100"),
    K("lat::variance3_neg1e9", tier="thorough", timeout=1800, note="OFF = -1e9"),
    K("lat::variance3_off1e12", tier="thorough", timeout=1800, note="OFF = 1e12"),
    K("lat::variance3_off1e15", tier="thorough", timeout=1800, note="OFF = 1e15"),
    K("lat::variance3_r8_off1e9", tier="thorough", timeout=3600, note="OFF = 1e9, |k| <= 8"),
    K("lat::mean3_off1e15", tier="thorough", timeout=1800, note="Mean, OFF = 1e15"),
]
PLANS["C02"]["k"] += [
    K("lat::merge3_off1e9", timeout=600, note="Variance: chunks of sizes (1,2) / (2,1) merged, OFF = 1e9: " + LAT_NOTE),
    K("lat::merge3_off0", tier="thorough", timeout=1800, note="same, OFF = 0"),
]
PLANS["C03"]["k"] += [
    K("lat::two_point_off1e9", timeout=600, note="two lattice points around 1e9: skewness 0 and kurtosis -2 within the envelope"),
    K("lat::two_point_off0", tier="thorough", timeout=1800, note="same, OFF = 0"),
]
PLANS["C17"]["k"] += [
    K("lat::merge3_off1e9", timeout=600, note="merged variance of lattice data at offset 1e9 stays inside the envelope (in particular non-negative)"),
]
for _p in ("C01", "C02", "C03"):
    PLANS[_p]["meta"]["bounds"] = list(PLANS[_p]["meta"]["bounds"]) + ["K: integer lattice x_i = OFF + k_i (OFF in {0, 1e9} quick, up to 1e15 thorough; |k_i| <= 4), n = 3 (2 for skewness/kurtosis): bit-precise envelope"]

_mplan("C12", "plan_c12", ["with_const_width of the crate's Histogram10 and of define_histogram! at LEN 1..4 (mirprobe), incl. the slice iterator models"],
       ["M: edge i = start + i*(end-start)/LEN exactly for every i, all real start < end; LEN+1 edges; zero counts",
        "M (rounding mode): rigorous rounding-error bound of every edge <= 8 * 2^-53 * max(|start|,|end|), LEN 1..10"],
       ["rounding bound of the edges only for LEN <= 10 (native probes up to LEN 100 run only when the proof fails); underflow range"])
_mplan("C13", "plan_c13", ["closures of IterWidths / IterBinCenters / IterNormalized / IterVariances, multinomial_variance"],
       ["M: the value formulas of widths, centers, normalized_bins and (bin) variances for all real edges and counts"], [])
