"""Per-property obligation plans (which harnesses / queries decide which property at which tier)."""
from .kani_engine import Obl

COMMON_ASSUME = [
    "engine K builds /repo with features std+verif-hooks (not the default libm): sqrt/ceil/min/max are compiler "
    "intrinsics modelled exactly by CBMC; the crate's own arithmetic is identical under both features",
    "Kani's pinned toolchain and its core library are what is model-checked; counterexamples are replayed on the "
    "repository's own toolchain (dev and release) before being reported",
    "u64 sample counts do not overflow",
]


def K(h, tier="quick", timeout=300, **kw):
    return Obl(h, tier=tier, timeout=timeout, **kw)


PLANS = {}

PLANS["C14"] = {
    "k": [
        K("c14::step", note="one add / one merge from an arbitrary non-NaN state, full doubles: all histories"),
        K("c14::stream3", note="3 symbolic doubles incl. NaN/inf/-0.0, 3 chunks (empty allowed), both bracketings, "
                               "optional from_value seed"),
        K("c14::ingest3", note="collect by value / by reference, extend by value / by reference, reversed order: 3 symbolic doubles"),
        K("c14::ingest5", tier="thorough", note="same, 5 symbolic doubles"),
        K("c14::stream4", tier="thorough", timeout=1200, note="same with 4 symbolic doubles"),
        K("c14::stream5", tier="thorough", timeout=5400, note="same with 5 symbolic doubles"),
    ],
    "meta": {
        "functions_encoded": ["Min::{new,from_value,add,merge,min,estimate}", "Max::{new,from_value,add,merge,max,estimate}",
                              "FromIterator<f64>/<&f64> for Min, Max", "Extend<&f64> for Min", "f64::min/f64::max (core)"],
        "bounds": ["streams of 3 (quick) / 4 and 5 (thorough) doubles, 3 contiguous chunks", "one inductive step from any non-NaN state"],
        "outside_bounds": ["streams longer than 5 are covered only through the inductive step (state = one double)"],
        "assumptions": COMMON_ASSUME,
    },
}
