"""Per-property obligation plans (which harnesses / queries decide which property at which tier)."""
from .kani_engine import Obl

COMMON_ASSUME = [
    "engine K builds /repo with features std+verif-hooks (not the default libm): sqrt/ceil/min/max are compiler "
    "intrinsics modelled exactly by CBMC; the crate's own arithmetic is identical under both features",
    "Kani's pinned toolchain and its core library are what is model-checked; counterexamples are replayed on the "
    "repository's own toolchain (dev and release) before being reported",
    "u64 sample counts do not overflow",
]


def K(h, tier="quick", timeout=300, **kw):
    return Obl(h, tier=tier, timeout=timeout, **kw)


PLANS = {}

PLANS["C14"] = {
    "k": [
        K("c14::step", note="one add / one merge from an arbitrary non-NaN state, full doubles: all histories"),
        K("c14::stream3", note="3 symbolic doubles incl. NaN/inf/-0.0, 3 chunks (empty allowed), both bracketings, "
                               "optional from_value seed"),
        K("c14::ingest3", note="collect by value / by reference, extend by value / by reference, reversed order: 3 symbolic doubles"),
        K("c14::ingest5", tier="thorough", note="same, 5 symbolic doubles"),
        K("c14::stream4", tier="thorough", timeout=1200, note="same with 4 symbolic doubles"),
        K("c14::stream5", tier="thorough", timeout=5400, note="same with 5 symbolic doubles"),
    ],
    "meta": {
        "functions_encoded": ["Min::{new,from_value,add,merge,min,estimate}", "Max::{new,from_value,add,merge,max,estimate}",
                              "FromIterator<f64>/<&f64> for Min, Max", "Extend<&f64> for Min", "f64::min/f64::max (core)"],
        "bounds": ["streams of 3 (quick) / 4 and 5 (thorough) doubles, 3 contiguous chunks", "one inductive step from any non-NaN state"],
        "outside_bounds": ["streams longer than 5 are covered only through the inductive step (state = one double)"],
        "assumptions": COMMON_ASSUME,
    },
}

HIST_FUNCS = ["define_histogram!{from_ranges,find,add,range_min,range_max,bins,ranges,__verif hooks}", "<[f64]>::binary_search_by (Kani's pinned core)",
              "f64::partial_cmp"]
PLANS["C06"] = {
    "k": [
        K("c06::len1", note="LEN 1: all edge pairs via real from_ranges (inf, -0.0, repeated edges), all samples incl. NaN (must be rejected without panic), arbitrary counts"),
        K("c06::len2", note="LEN 2"),
        K("c06::len3", note="LEN 3"),
        K("c06::len4", note="LEN 4"),
        K("c06::dup3", note="LEN 3, directed: sample exactly on a repeated edge never lands in the zero-width bin"),
        K("c06::dup4", note="LEN 4, same"),
        K("c06::len10", tier="thorough", timeout=3600, note="exported Histogram10"),
        K("c06::dup10", tier="thorough", timeout=3600, note="Histogram10 repeated edges"),
    ],
    "meta": {
        "functions_encoded": HIST_FUNCS,
        "bounds": ["LEN in {1,2,3,4} (quick) + 10 (thorough); edges and sample are unconstrained doubles (edges filtered by the real from_ranges)",
                   "counts: arbitrary u64 below u64::MAX, one add = inductive step over any add history"],
        "outside_bounds": ["LEN = 100 and other LEN", "with_const_width-built histograms are covered through 'every valid edge vector' (C12 shows its edges are valid)",
                           "the choice among equal elements by binary_search is unspecified by std: the verdict is for Kani's pinned core; counterexamples are replayed on the repo toolchain"],
        "assumptions": COMMON_ASSUME,
    },
}

PLANS["C12"] = {
    "k": [
        K("c12::from_ranges1", note="LEN 1: any list of 0..4 unconstrained doubles (NaN, inf, -0.0): Result equals the first-offender spec"),
        K("c12::from_ranges2", note="LEN 2, lists of 0..5"),
        K("c12::from_ranges3", note="LEN 3, lists of 0..6"),
        K("c12::from_ranges4", note="LEN 4, lists of 0..7"),
        K("c12::const_width_struct2", note="LEN 2, all finite start<end with |.| in {0} U [1e-30,1e30]: LEN+1 edges, first == start, non-decreasing, zero counts"),
        K("c12::const_width_struct4", timeout=600, note="LEN 4, same"),
        K("c12::from_ranges10", tier="thorough", timeout=3600, note="Histogram10, lists of 0..13"),
    ],
    "meta": {
        "functions_encoded": ["define_histogram!{from_ranges,with_const_width,ranges,bins}", "Iterator::{take,copied,enumerate}"],
        "bounds": ["LEN in {1,2,3,4} (+10 thorough); input list length 0..LEN+3, elements unconstrained doubles",
                   "with_const_width: structural claims for LEN 2 and 4 on the full C12 magnitude domain"],
        "outside_bounds": ["LEN = 100", "with_const_width edge i within a few ulps of start + i*(end-start)/LEN: bit-blasting the divider/multiplier "
                           "did not finish in 10-15 min even for LEN 2 or on an i16 lattice; the formula is decided in exact arithmetic by engine M"],
        "assumptions": COMMON_ASSUME,
    },
}

SAME_RANGES = [r"Both histograms must have the same ranges"]
PLANS["C13"] = {
    "k": [
        K("c13::same_edges2", note="LEN 2: arbitrary valid edges (hook-built), arbitrary counts < 2^61: merge == += == bin-wise sum, commutes, associates, argument and edges unchanged"),
        K("c13::same_edges3", note="LEN 3"),
        K("c13::scale_reset2", note="LEN 2: *= k multiplies every count, reset zeroes and keeps edges bit for bit, usable again"),
        K("c13::scale_reset3", note="LEN 3"),
        K("c13::views2", timeout=600, note="LEN 2: iteration yields exactly LEN ((lower,upper),count) items in order; widths == upper-lower"),
        K("c13::views3", timeout=600, note="LEN 3"),
        K("c13::centers2", timeout=900, note="LEN 2: centers within 2 ulp of (lower+upper)/2 (bit-pattern distance)"),
        K("c13::diff_merge2", must_panic=True, allow_fail=SAME_RANGES, require_fail=SAME_RANGES, allow_panic=SAME_RANGES,
          note="LEN 2: edges differing at a symbolic index: merge panics on every input (statement after the call unreachable)"),
        K("c13::diff_merge3", must_panic=True, allow_fail=SAME_RANGES, require_fail=SAME_RANGES, allow_panic=SAME_RANGES, note="LEN 3"),
        K("c13::diff_addassign2", must_panic=True, allow_fail=SAME_RANGES, require_fail=SAME_RANGES, allow_panic=SAME_RANGES, note="LEN 2: += panics"),
        K("c13::diff_addassign3", must_panic=True, allow_fail=SAME_RANGES, require_fail=SAME_RANGES, allow_panic=SAME_RANGES, note="LEN 3"),
        K("c13::views1", tier="thorough", timeout=600, note="LEN 1"),
        K("c13::same_edges4", tier="thorough", timeout=1800, note="LEN 4"),
        K("c13::same_edges10", tier="thorough", timeout=3600, note="Histogram10"),
        K("c13::scale_reset10", tier="thorough", timeout=3600, note="Histogram10"),
        K("c13::views10", tier="thorough", timeout=3600, note="Histogram10"),
        K("c13::centers3", tier="thorough", timeout=3600, note="LEN 3"),
        K("c13::variance2", tier="thorough", timeout=3600, note="LEN 2: variance(i) agrees with variances()[i]; every view yields LEN items"),
        K("c13::diff_merge10", tier="thorough", timeout=1800, must_panic=True, allow_fail=SAME_RANGES, require_fail=SAME_RANGES, allow_panic=SAME_RANGES, note="Histogram10"),
        K("c13::diff_addassign10", tier="thorough", timeout=1800, must_panic=True, allow_fail=SAME_RANGES, require_fail=SAME_RANGES, allow_panic=SAME_RANGES, note="Histogram10"),
    ],
    "meta": {
        "functions_encoded": ["define_histogram!{Merge::merge, AddAssign<&Self>, MulAssign<u64>, reset, iter, IntoIterator, bins, ranges, find, add}",
                              "Histogram::{widths,centers,variance,variances,normalized_bins} + their iterators"],
        "bounds": ["LEN in {2,3} (quick) + {1,4,10} (thorough); operands built with the hook from arbitrary valid edges and counts below 2^61 (2^32 for *=)"],
        "outside_bounds": ["u64 overflow in += / *=", "LEN = 100",
                           "operand state at the instant of the panic (Kani ends the path at a panic); the real code checks all edges before mutating",
                           "normalized_bins == count/width and the variance formula value: one double division per bin does not bit-blast in 10 min; formula decided by engine M"],
        "assumptions": COMMON_ASSUME + ["CBMC's optional NaN/float-overflow checks are ignored: inf-inf = NaN is legal IEEE-754 behaviour, not a panic"],
    },
}

Q_FUNCS = ["Quantile::{new,add,quantile,len,is_empty,p,parabolic,linear,estimate}", "float_ord::sort (core slice sort)",
           "easy_cast::{Conv,ConvFloat} conversions", "f64::ceil, f64::max, core::cmp::min"]
PLANS["C07"] = {
    "k": [
        K("c07::grid1", note="n=1: p any double with <= 13 significant bits in {0} U [2^-12,1] (contains every m/4096), value any finite double"),
        K("c07::grid2", note="n=2, same p set, all value pairs in arrival order (all permutations/ties)"),
        K("c07::grid3", timeout=600, note="n=3"),
        K("c07::grid4", timeout=900, note="n=4"),
        K("c07::twelfth2", timeout=600, note="n=2: p = fl(c/12) and its two floating-point neighbours"),
        K("c07::twelfth3", timeout=600, note="n=3: includes the unrepresentable thirds and both neighbours"),
        K("c07::twelfth4", tier="thorough", timeout=1800, note="n=4"),
        K("c07::free1", tier="thorough", timeout=1800, note="n=1, p any double in [0,1]"),
        K("c07::free2", tier="thorough", timeout=3600, note="n=2, p any double in [0,1] (n*p exact)"),
        K("c07::free4", tier="thorough", timeout=7200, note="n=4, p any double in [0,1] (n*p exact)"),
        K("c07::free3", tier="thorough", timeout=7200, note="n=3, p any double in [0,1], acceptance-set oracle"),
    ],
    "meta": {
        "functions_encoded": Q_FUNCS,
        "bounds": ["n in {1,2,3,4} observations, finite doubles with |x| <= 1e300, every arrival order",
                   "p: 13-significant-bit grid (quick), c/12 +- 1 ulp (quick n=2,3), free double (thorough)"],
        "outside_bounds": ["free-double p may not finish within the thorough budget (reported inconclusive, never success)"],
        "assumptions": COMMON_ASSUME + ["oracle: sorted copy v; p=0 -> v[0]; p=1 -> v[n-1]; exact whole n*p=j -> (v[j-1]+v[j])/2 within 2 ulp; "
                                        "else v[ceil(n*p)-1]; when only fl(n*p) is within 1 ulp of whole j: any of v[j-1], v[j], their average"],
    },
}

NEW_PANIC = [r"assertion failed: \(0\. \.\.=1\.\)\.contains\(&p\)"]
PLANS["C15"] = {
    "k": [
        K("c15::stream1", note="p any double in [0,1]; 1 finite observation: len/is_empty/p()/quantile range after every add"),
        K("c15::stream2", note="2 observations"),
        K("c15::stream3", timeout=600, note="3 observations"),
        K("c15::stream4", timeout=900, note="4 observations"),
        K("c15::stream5", timeout=1200, note="5 observations; at the fifth: heights sorted, extremes = min/max, positions 1..5"),
        K("c15::new_invalid", must_panic=True, allow_fail=NEW_PANIC, require_fail=NEW_PANIC, allow_panic=NEW_PANIC,
          note="Quantile::new(p) for every p outside [0,1] or NaN panics"),
        K("c15::step_newmin", timeout=900, note="inductive step from any well-formed marker state (count <= 2^40, full doubles), sample below the first marker"),
        K("c15::step_top", timeout=900, note="same, sample at or above the last marker"),
        K("c15::step_interior", tier="thorough", timeout=3600, note="same, sample strictly inside the marker range"),
        K("c15::step_lat", tier="thorough", timeout=5400, note="heights/sample on an i8 lattice (offset k*1024), positions <= 32: heights stay ordered, quantile() in [min,max]"),
    ],
    "meta": {
        "functions_encoded": Q_FUNCS,
        "bounds": ["streams of 1..5 full-double observations from new(p), p any double in [0,1]",
                   "one add from an arbitrary well-formed state: heights finite non-decreasing, positions strictly increasing 1..count<=2^40, desired positions arbitrary finite"],
        "outside_bounds": ["height ordering after marker moves for off-lattice doubles (bit-blasting the parabolic formula does not finish); decided in exact arithmetic by engine M in C05",
                           "a counterexample of the step harness starts from a hook-built state that may be unreachable; it is replayed natively from that state"],
        "assumptions": COMMON_ASSUME,
    },
}
