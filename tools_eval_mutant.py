#!/opt/veriftools/pyvenv/bin/python
"""tools_eval_mutant.py <seeded-id> <property> [tier] [needs...]
Apply seeded/<id>/patch.diff to /repo, run ./check <property>, undo, and record the outcome in seeded/<id>/meta.json."""
import json, os, re, subprocess, sys, time
sid, prop = sys.argv[1], sys.argv[2]
tier = sys.argv[3] if len(sys.argv) > 3 else "quick"
d = os.path.join("/verif/seeded", sid)
meta_p = os.path.join(d, "meta.json")
meta = json.load(open(meta_p)) if os.path.exists(meta_p) else {}
dirty = subprocess.run(["git", "-C", "/repo", "status", "--porcelain", "--untracked-files=no"], capture_output=True, text=True).stdout.strip()
if dirty:
    sys.exit("/repo is dirty, refusing")
ev_p = os.path.join("/verif/evidence", prop + ".json")
ev_saved = open(ev_p).read() if os.path.exists(ev_p) else None   # evidence must describe the unchanged tree: put it back afterwards
subprocess.run(["git", "-C", "/repo", "apply", os.path.join(d, "patch.diff")], check=True)
t0 = time.time()
try:
    p = subprocess.run(["./check", prop, "--tier", tier], cwd="/verif", capture_output=True, text=True)
finally:
    subprocess.run(["git", "-C", "/repo", "checkout", "--", "."], check=True)
    if ev_saved is not None:
        open(ev_p, "w").write(ev_saved)
out = p.stdout + p.stderr
viol = sorted(set(re.findall(r"^VIOLATION property=\S+ replay=\S+ role=(\S+)", out, re.M)))
inconc = re.findall(r"^INCONCLUSIVE (.*)$", out, re.M)
run = {"property": prop, "tier": tier, "exit": p.returncode, "wall_s": round(time.time() - t0, 1), "violation_roles": viol,
       "inconclusive": inconc[:6], "cmd": "git -C /repo apply seeded/%s/patch.diff && ./check %s --tier %s; git -C /repo checkout -- ." % (sid, prop, tier)}
meta.setdefault("breaks_property", prop)
meta.setdefault("runs", [])
meta["runs"] = [r for r in meta["runs"] if not (r["property"] == prop and r["tier"] == tier)] + [run]
meta["detected"] = any(r["exit"] == 1 for r in meta["runs"])
json.dump(meta, open(meta_p, "w"), indent=1)
print(sid, prop, tier, "exit", p.returncode, "roles", viol[:4], "inconclusive", len(inconc), "%.0fs" % run["wall_s"])
